// C11: references and iterators are faithful proxies.
//  PART 1  write through one access path (case split), read back through all others
//  PART 2  reference assignment (copy / move), swap, iter_swap between two positions
//  PART 3  iterator arithmetic and comparisons for symbolic offsets within [0, size()]
//  PART 4  permuting algorithms (rotate, reverse, swap_ranges) against the same algorithm on the tuple model
#include "model.hpp"

#include <algorithm>

#ifndef LIST
#define LIST u32, cntgs::FixedSize<Tr>, u16, Tr, u8
#endif
#ifndef PART
#define PART 1
#endif
#ifndef K0
#define K0 3
#endif

using LT = L<LIST>;
using Alloc = SAlloc<std::byte, AF_ALWAYS_EQUAL>;
using Vec = LT::Vec<Alloc>;
using M = Model<LT::N>;

static bool has_room(const M& m, const MElem<LT::N>& e)
{
    return m.n < m.cap && live_payload<LT>(m) + payload_bytes<LT>(e) <= m.budget;
}

static Vec build(M& m, usize kmin, bool same_lengths, usize kmax = K0)
{
    for (usize j = 0; j < LT::N; ++j)
    {
        if (LT::kind[j] == K_FIXED)
        {
            usize f = verif_nondet_size();
            verif_assume(f <= SMAX);
            m.fixed[j] = verif_fork(f);
        }
    }
    usize k = verif_nondet_size();
    verif_assume(k >= kmin && k <= kmax);
    k = verif_fork(k);
    m.cap = k;
    m.budget = k * SMAX * 8 * LT::NVARY;
    Vec v = make_vec<LT, Vec>(m.cap, m.budget, m.fixed, Alloc{});
    for (usize i = 0; i < KMAX; ++i)
    {
        if (i < k)
        {
            const auto e = draw_elem<LT>(m);
            if (same_lengths && i > 0)
            {
                for (usize j = 0; j < LT::N; ++j)
                {
                    verif_assume(e.len[j] == m.e[0].len[j]);
                }
            }
            verif_assume(has_room(m, e));
            emplace_elem<LT>(v, e);
            m.e[m.n++] = e;
        }
    }
    return v;
}

// ---- PART 1 ---------------------------------------------------------------------------------------------------------
template <usize I, class Ref>
void set_field(const Ref& r, u64 x, usize t)
{
    using P = typename LT::template At<I>;
    using T = typename PI<P>::V;
    if constexpr (PI<P>::kind == K_PLAIN)
    {
        cntgs::get<I>(r) = mk<T>(x);
    }
    else
    {
        cntgs::get<I>(r)[t] = mk<T>(x);
    }
}
template <class Ref, usize... I>
void set_any(const Ref& r, usize field, u64 x, usize t, std::index_sequence<I...>)
{
    ((field == I ? set_field<I>(r, x, t) : void()), ...);
}
template <class... P>
constexpr std::array<u64, sizeof...(P)> masks(L<P...>)
{
    return {VMASK<typename PI<P>::V>...};
}

template <class X>
std::uintptr_t first_addr(const X& x)
{
    if constexpr (IS_SPAN<X>)
    {
        return addr_of(x.data());
    }
    else
    {
        return addr_of(&x);
    }
}
template <class VecT>
void structured_bindings(VecT& v, usize i)
{
    if constexpr (std::tuple_size_v<typename VecT::reference> == 3)
    {
        auto&& [f0, f1, f2] = v[i];
        verif_assert(first_addr(f0) == first_addr(cntgs::get<0>(v[i])), 380);
        verif_assert(first_addr(f1) == first_addr(cntgs::get<1>(v[i])), 380);
        verif_assert(first_addr(f2) == first_addr(cntgs::get<2>(v[i])), 380);
        const VecT& cv = v;
        auto&& [c0, c1, c2] = cv[i];
        verif_assert(first_addr(c0) == first_addr(f0) && first_addr(c2) == first_addr(f2), 381);
        (void)c1;
    }
}

static void part1()
{
    M m{};
    Vec v = build(m, 1, false);
    usize i = verif_nondet_size(), field = verif_nondet_size(), t = verif_nondet_size(), path = verif_nondet_size();
    verif_assume(i < m.n && field < LT::N && path < 7);
    i = verif_fork(i);
    field = verif_fork(field);
    verif_assume(!LT::is_count(field));  // the count field of a varying span is not a free value
    verif_assume(t < m.e[i].len[field]);
    t = verif_fork(t);
    path = verif_fork(path);
    const u64 x = verif_nondet_u64() & masks(LT{})[field];
    const auto seq = typename LT::Seq{};
    switch (path)
    {
        case 0: set_any(v[i], field, x, t, seq); break;
        case 1:
            verif_assume(i == 0);
            set_any(v.front(), field, x, t, seq);
            break;
        case 2:
            verif_assume(i == m.n - 1);
            set_any(v.back(), field, x, t, seq);
            break;
        case 3: set_any(*(v.begin() + i), field, x, t, seq); break;
        case 4: set_any(v.begin()[i], field, x, t, seq); break;
        case 5:
        {
            auto it = v.end();
            it -= (m.n - i);
            set_any(*it.operator->().operator->(), field, x, t, seq);
            break;
        }
        default:
        {
            auto it = v.begin();
            for (usize s = 0; s < i; ++s)
            {
                ++it;
            }
            auto ref = *it;
            typename Vec::reference copy{ref};  // a copy of a reference denotes the same element
            set_any(copy, field, x, t, seq);
            break;
        }
    }
    m.e[i].val[field][t] = x;
    inv<LT>(v, m, 200);
    // read back through iterator subscripting, operator-> and a const_iterator converted from an iterator
    const Vec& cv = v;
    // a const_iterator that was bound to ANOTHER vector (other sizes, other block) and is then re-seated by the converting
    // assignment from a mutable iterator denotes the elements of the new vector
    M mw{};
    Vec w = build(mw, 1, false, 1);
    typename Vec::const_iterator cit = w.begin();
    check_elem<LT>(*cit, mw.e[0], 390);
    cit = v.begin();
    for (usize s = 0; s < KMAX; ++s)
    {
        if (s < m.n)
        {
            check_elem<LT>(cit[s], m.e[s], 300);
            check_elem<LT>(*(cv.cbegin() + s).operator->().operator->(), m.e[s], 300);
            typename Vec::const_reference cr = v[s];  // const reference converted from a mutable one
            check_elem<LT>(cr, m.e[s], 300);
            typename Vec::iterator mit = w.begin();
            mit = v.begin() + s;  // same-constness assignment across vectors
            check_elem<LT>(*mit, m.e[s], 300);
            typename Vec::const_iterator cit2 = w.cbegin();
            cit2 = mit;
            check_elem<LT>(*cit2, m.e[s], 300);
            verif_assert(cit2 == cv.cbegin() + s && cit2.index() == s, 391);
        }
    }
    structured_bindings(v, i);
}

// ---- PART 2 ---------------------------------------------------------------------------------------------------------
template <class Ref, usize... I>
u64 gen_sum(const Ref& r, std::index_sequence<I...>)
{
    u64 s = 0;
    (
        [&]
        {
            using P = typename LT::template At<I>;
            if constexpr (std::is_same_v<typename PI<P>::V, Tr> || std::is_same_v<typename PI<P>::V, Am>)
            {
                if constexpr (PI<P>::kind == K_PLAIN)
                {
                    s += cntgs::get<I>(r).gen;
                }
                else
                {
                    for (auto& x : cntgs::get<I>(r))
                    {
                        s += x.gen;
                    }
                }
            }
        }(),
        ...);
    return s;
}
template <class... P>
static usize gen_fields_impl(const MElem<LT::N>& e, L<P...>)
{
    const bool counted[LT::N] = {(std::is_same_v<typename PI<P>::V, Tr> || std::is_same_v<typename PI<P>::V, Am>)...};
    usize n = 0;
    for (usize j = 0; j < LT::N; ++j)
    {
        if (counted[j])
        {
            n += e.len[j];
        }
    }
    return n;
}
static usize tr_fields(const MElem<LT::N>& e)  // objects of a type that counts how often it was moved from (Tr, Am)
{
    return gen_fields_impl(e, LT{});
}

static void part2()
{
    M m{};
    Vec v = build(m, 1, false);
    usize i = verif_nondet_size(), j = verif_nondet_size(), how = verif_nondet_size();
    verif_assume(i < m.n && j < m.n && how < 5);
    i = verif_fork(i);
    j = verif_fork(j);
    how = verif_fork(how);
    for (usize f = 0; f < LT::N; ++f)
    {
        verif_assume(m.e[i].len[f] == m.e[j].len[f]);  // precondition: equal field sizes
    }
    const auto seq = typename LT::Seq{};
    const u64 gen_j0 = gen_sum(v[j], seq), gen_i0 = gen_sum(v[i], seq);
    const usize objs0 = verif_live_objs();
    const Vec& cv = v;
    switch (how)
    {
        case 0:
        {
            const auto rj = v[j];  // an lvalue reference object: copy (the prvalue v[j] would be an rvalue mutable reference = move)
            v[i] = rj;
            m.e[i] = m.e[j];
            verif_assert(gen_sum(v[j], seq) == gen_j0, 260);  // copy does not move from the source
            break;
        }
        case 1:
            v[i] = cv[j];  // from a const reference
            m.e[i] = m.e[j];
            verif_assert(gen_sum(v[j], seq) == gen_j0, 260);
            break;
        case 2:
            v[i] = std::move(v[j]);  // from an rvalue mutable reference: moves
            m.e[i] = m.e[j];
            if (i != j)
            {
                verif_assert(gen_sum(v[j], seq) == gen_j0 + tr_fields(m.e[j]), 261);  // every non-trivial field moved exactly once
            }
            break;
        case 3:
        {
            using std::swap;
            swap(v[i], v[j]);
            const auto tmp = m.e[i];
            m.e[i] = m.e[j];
            m.e[j] = tmp;
            break;
        }
        default:
        {
            std::iter_swap(v.begin() + i, v.begin() + j);
            const auto tmp = m.e[i];
            m.e[i] = m.e[j];
            m.e[j] = tmp;
            break;
        }
    }
    (void)gen_i0;
    verif_assert(verif_live_objs() == objs0, 297);
    inv<LT>(v, m, 200);
}

// ---- PART 3 ---------------------------------------------------------------------------------------------------------
static void part3()
{
    M m{};
    Vec v = build(m, 0, false);
    const usize sz = v.size();
    const std::ptrdiff_t n = static_cast<std::ptrdiff_t>(verif_nondet_size()), k = static_cast<std::ptrdiff_t>(verif_nondet_size());
    verif_assume(n >= 0 && static_cast<usize>(n) <= sz && k >= 0 && static_cast<usize>(k) <= sz);
    const auto b = v.begin(), e = v.end();
    auto a = b + n, c = b + k;
    verif_assert(a - b == n && b - a == -n, 301);
    verif_assert((a - c) == n - k, 302);
    verif_assert(a.index() == static_cast<usize>(n), 303);
    verif_assert((a == c) == (n == k) && (a != c) == (n != k), 304);
    verif_assert((a < c) == (n < k) && (a > c) == (n > k), 305);
    verif_assert((a <= c) == (n <= k) && (a >= c) == (n >= k), 306);
    verif_assert(e - b == static_cast<std::ptrdiff_t>(sz), 307);
    verif_assert((e - n) + n == e && (a - n) == b, 308);
    auto d = a;
    d += (k - n);
    verif_assert(d == c, 309);
    d -= (k - n);
    verif_assert(d == a, 310);
    if (static_cast<usize>(n) < sz)
    {
        auto x = a;
        verif_assert(++x == a + 1 && x - a == 1, 311);
        verif_assert(x-- == a + 1 && x == a, 312);
        verif_assert(x++ == a && --x == a, 313);
    }
    typename Vec::const_iterator ca = a;
    verif_assert(ca.index() == a.index() && (ca == typename Vec::const_iterator(c)) == (n == k), 314);
    verif_assert(addr_of(ca.data()) == addr_of(a.data()) || static_cast<usize>(n) == sz, 315);
    const Vec& cv = v;
    verif_assert(cv.cbegin() + n == ca && cv.cend() - cv.cbegin() == static_cast<std::ptrdiff_t>(sz), 316);
    verif_assert(std::distance(b, e) == static_cast<std::ptrdiff_t>(sz) && std::next(b, n) == a, 317);
}

// ---- PART 4 ---------------------------------------------------------------------------------------------------------
static void part4()
{
    M m{};
    Vec v = build(m, 2, true);
    usize algo = verif_nondet_size(), k = verif_nondet_size();
    verif_assume(algo < 3 && k <= m.n);
    algo = verif_fork(algo);
    k = verif_fork(k);
    const usize objs0 = verif_live_objs();
    if (algo == 0)
    {
        std::rotate(v.begin(), v.begin() + k, v.end());
        std::rotate(m.e, m.e + k, m.e + m.n);
    }
    else if (algo == 1)
    {
        std::reverse(v.begin(), v.end());
        std::reverse(m.e, m.e + m.n);
    }
    else
    {
        const usize h = m.n / 2;
        std::swap_ranges(v.begin(), v.begin() + h, v.begin() + h);
        std::swap_ranges(m.e, m.e + h, m.e + h);
    }
    verif_assert(verif_live_objs() == objs0, 297);
    inv<LT>(v, m, 200);
}

extern "C" void h_entry()
{
    {
#if PART == 1
        part1();
#elif PART == 2
        part2();
#elif PART == 3
        part3();
#else
        part4();
#endif
        verif_reach(1);
    }
    verif_assert(verif_live_objs() == 0, 9100);
    verif_assert(verif_live_blocks() == 0, 9101);
}
