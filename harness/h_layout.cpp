// Mode A address kernel (C02, C03, C04, C05, C10): NELEM elements with fully symbolic span lengths (<= MAXSPAN objects),
// symbolic fixed sizes, both block-base residues. Payload memcpys of symbolic length are abstracted to their bounds check
// by the executor (--abstract-memcpy); every count/plain field is stored and re-loaded for real.
// Oracle: an independent greedy layout (lowest suitably aligned address after the previous field / element).
#include "model.hpp"

#ifndef LIST
#define LIST u16, cntgs::AlignAs<usize, 8>, cntgs::VaryingSize<cntgs::AlignAs<u32, 16>>, u8, cntgs::AlignAs<u32, 4>
#endif
#ifndef NELEM
#define NELEM 2
#endif
#ifndef MAXSPAN
#define MAXSPAN 65535
#endif
#ifndef FORKED
#define FORKED 0  // the first FORKED span parameters (in list order) take their length from a complete case split over 0..FORKMAX
#endif            // instead of a symbolic value: lists with three or more spans get a solver verdict this way
#ifndef FORKMAX
#define FORKMAX 3
#endif
#ifndef RESERVED
#define RESERVED 0  // 1: the vector is first constructed with symbolic smaller capacity and then reserve()d (C10)
#endif

using LT = L<LIST>;
using Alloc = SAlloc<std::byte, AF_ALWAYS_EQUAL>;
using Vec = LT::Vec<Alloc>;
constexpr usize N = LT::N;
constexpr usize S = alignof(typename Vec::allocator_type::value_type);

static unsigned char SRC[MAXSPAN * 16 + 16];

template <class T>
struct Rng
{
    const T* p;
    usize n;
    const T* begin() const { return p; }
    const T* end() const { return p + n; }
    const T* data() const { return p; }
    usize size() const { return n; }
};

template <class P>
auto make_larg(usize j, const usize* len)
{
    using T = typename PI<P>::V;
    if constexpr (PI<P>::kind == K_PLAIN)
    {
        if constexpr (std::is_integral_v<T>)
        {
            return static_cast<T>(LT::is_count(j) ? len[j + 1] : 0);
        }
        else
        {
            return T{};
        }
    }
    else
    {
        return Rng<T>{reinterpret_cast<const T*>(SRC), len[j]};
    }
}
template <class... P, usize... I>
void emplace_l(Vec& v, const usize* len, L<P...>, std::index_sequence<I...>)
{
    auto args = std::tuple{make_larg<P>(I, len)...};
    v.emplace_back(std::get<I>(args)...);
}

template <class X>
std::uintptr_t fbegin(X& x)
{
    return addr_of(&x);
}
template <class X>
std::uintptr_t fend(X& x)
{
    return addr_of(&x) + sizeof(X);
}
template <class X>
std::uintptr_t fbegin(const cntgs::Span<X>& x)
{
    return addr_of(x.data());
}
template <class X>
std::uintptr_t fend(const cntgs::Span<X>& x)
{
    return addr_of(x.data() + x.size());
}
template <class X>
usize flen(X&)
{
    return 1;
}
template <class X>
usize flen(const cntgs::Span<X>& x)
{
    return x.size();
}
template <class Ref, usize... I>
void addrs(const Ref& r, std::uintptr_t* b, std::uintptr_t* e, usize* n, std::index_sequence<I...>)
{
    ((b[I] = fbegin(cntgs::get<I>(r)), e[I] = fend(cntgs::get<I>(r)), n[I] = flen(cntgs::get<I>(r))), ...);
}

static std::uintptr_t up(std::uintptr_t x, usize a) { return (x + a - 1) & ~(static_cast<std::uintptr_t>(a) - 1); }

template <class... P>
constexpr std::array<u64, sizeof...(P)> count_max(L<P...>)
{
    return {(std::is_integral_v<typename PI<P>::V> ? VMASK<typename PI<P>::V> : 0)...};
}

// span lengths are drawn with as few symbolic bits as the bound needs (the upper bits are literally zero, which keeps the
// multiplications by the object size cheap for the bit-blaster)
static usize nondet_len()
{
#if MAXSPAN == 65535
    return verif_nondet_u16();
#elif MAXSPAN < 256
    const usize n = verif_nondet_u8();
    verif_assume(n <= MAXSPAN);
    return n;
#else
#error "MAXSPAN is 65535 or below 256"
#endif
}

static usize span_len(usize ordinal)
{
    if (ordinal < FORKED)
    {
        usize n = verif_nondet_size();
        verif_assume(n <= FORKMAX);
        return verif_fork(n);
    }
    return nondet_len();
}

extern "C" void h_entry()
{
    usize fixed[N] = {};
    usize spans_before[N] = {};
    {
        usize c = 0;
        for (usize j = 0; j < N; ++j)
        {
            spans_before[j] = c;
            if (LT::kind[j] != K_PLAIN)
            {
                ++c;
            }
        }
    }
    usize len[NELEM][N];
    constexpr auto cmax = count_max(LT{});
    for (usize j = 0; j < N; ++j)
    {
        if (LT::kind[j] == K_FIXED)
        {
            fixed[j] = span_len(spans_before[j]);
        }
    }
    usize bytes = 0;
    for (usize e = 0; e < NELEM; ++e)
    {
        for (usize j = 0; j < N; ++j)
        {
            if (LT::kind[j] == K_VARY)
            {
                len[e][j] = span_len(spans_before[j]);
                verif_assume(len[e][j] <= cmax[j - 1]);
                bytes += len[e][j] * LT::vsize[j];
            }
            else
            {
                len[e][j] = LT::kind[j] == K_FIXED ? fixed[j] : 1;
            }
        }
    }
    const usize extra = verif_nondet_u8() & 63;
    const usize budget = LT::NVARY ? bytes + extra : 0;
#if RESERVED == 2  // default-constructed (all fixed sizes are 0), then reserve()d: the stride comes from the default constructor of the locator
    for (usize j = 0; j < N; ++j)
    {
        if (LT::kind[j] == K_FIXED)
        {
            verif_assume(fixed[j] == 0);
        }
    }
    Vec v;
    v.reserve(NELEM, budget);
#elif RESERVED
    usize cap0 = verif_nondet_size(), b0 = verif_nondet_size();
    verif_assume(cap0 < NELEM && b0 <= budget);
    cap0 = verif_fork(cap0);
    Vec v = make_vec<LT, Vec>(cap0, LT::NVARY ? b0 : 0, fixed, Alloc{});
    v.reserve(NELEM, budget);
#else
    Vec v = make_vec<LT, Vec>(NELEM, budget, fixed, Alloc{});
#endif
    verif_assert(v.capacity() == NELEM, 2);
    const std::uintptr_t base = addr_of(v.data_begin());
    verif_assert(base % S == 0, 1);
    verif_assert(S == LT::SALIGN, 4);
    std::uintptr_t cur = base, prev_end = base;
    for (usize e = 0; e < NELEM; ++e)
    {
        emplace_l(v, len[e], LT{}, typename LT::Seq{});
        // oracle: greedy layout
        std::uintptr_t wb[N], we[N];
        cur = up(cur, S);
        const std::uintptr_t estart = cur;
        for (usize j = 0; j < N; ++j)
        {
            cur = up(cur, LT::align[j]);
            wb[j] = cur;
            cur += LT::vsize[j] * len[e][j];
            we[j] = cur;
        }
        std::uintptr_t gb[N], ge[N];
        usize gn[N];
        const auto ref = v[e];
        addrs(ref, gb, ge, gn, typename LT::Seq{});
        const std::uintptr_t rb = addr_of(ref.data_begin()), re = addr_of(ref.data_end());
        for (usize j = 0; j < N; ++j)
        {
            verif_assert(gb[j] == wb[j] && ge[j] == we[j], 10);                    // C05: tight packing
            verif_assert(gb[j] % LT::align[j] == 0, 30);                           // C03
            verif_assert(gn[j] == len[e][j], 26);                                  // C04: span counts
            verif_assert(gb[j] >= (j ? ge[j - 1] : rb) && ge[j] >= gb[j], 20);     // C04: order, no overlap
            verif_assert(gb[j] >= rb && ge[j] <= re, 21);                          // C04: inside the element
        }
        verif_assert(re == ge[N - 1], 22);
        verif_assert(rb == estart, 13);
        verif_assert(rb % S == 0, 31);
        verif_assert(rb >= prev_end, 23);  // C04: elements in index order, no overlap
        verif_assert(addr_of((v.begin() + e).data()) == rb, 25);
        const std::uintptr_t dend = addr_of(v.data_end());
        verif_assert(rb >= base && re <= dend, 24);
        verif_assert(dend >= cur && dend <= up(cur, S), 11);  // C05: data_end is the greedy end (rounded up to S at most)
        verif_assert(v.size() == e + 1, 5);
        verif_assert(dend - base <= v.memory_consumption(), 3);  // C02
        prev_end = re;
    }
    // re-read the first element after all emplaces (its fields must not have been clobbered: C02/C04)
    {
        std::uintptr_t gb[N], ge[N];
        usize gn[N];
        addrs(v[0], gb, ge, gn, typename LT::Seq{});
        for (usize j = 0; j < N; ++j)
        {
            verif_assert(gn[j] == len[0][j], 27);
        }
    }
    if (LT::NVARY == 0)
    {
        // C05: a full vector without VaryingSize parameters uses exactly memory_consumption() bytes (rounded up to S)
        verif_assert(up(addr_of(v.data_end()) - base, S) == v.memory_consumption(), 12);
    }
    verif_assert(verif_block_size(v.data_begin()) == v.memory_consumption(), 14);
    verif_reach(1);
}
