// C17: allocation failure leaves everything valid and leak-free. The allocator throws at a solver-chosen allocation (at most
// one failure per run: fail the 1st, 2nd, ... k-th in turn, or none). Compiled with -fexceptions; the executor interprets
// invoke/landingpad/resume and the __cxa_* runtime calls directly.
#include "model.hpp"

#ifndef LIST
#define LIST u16, cntgs::AlignAs<usize, 8>, cntgs::VaryingSize<u32>, u8
#endif
#ifndef AFLAGS
#define AFLAGS 0
#endif
#ifndef OP
#define OP OP_RESERVE
#endif
#ifndef EQ_IDS
#define EQ_IDS 0
#endif

enum : int
{
    OP_CONSTRUCT = 1,
    OP_RESERVE = 2,
    OP_COPY_CTOR = 3,
    OP_COPY_ASSIGN = 4,
    OP_MOVE_ASSIGN = 5,
    OP_ELEM_CTOR = 6,
    OP_ELEM_ASSIGN = 7
};

using LT = L<LIST>;
using Alloc = SAlloc<std::byte, (AFLAGS) | AF_THROWS>;
using Vec = LT::Vec<Alloc>;
using Elem = typename Vec::value_type;
using EAlloc = typename Elem::allocator_type;
using M = Model<LT::N>;
constexpr bool ALWAYS_EQ = ((AFLAGS)&AF_ALWAYS_EQUAL) != 0;
constexpr int ID_A = ALWAYS_EQ ? 0 : 1, ID_B = ALWAYS_EQ ? 0 : (EQ_IDS ? 1 : 2);

static bool has_room(const M& m, const MElem<LT::N>& e)
{
    return m.n < m.cap && live_payload<LT>(m) + payload_bytes<LT>(e) <= m.budget;
}

// builds without failures (failures are only injected into the operation under test)
static Vec build(M& m, usize kmax, int id)
{
    const int saved = g_alloc_failures;
    g_alloc_failures = 1;
    for (usize j = 0; j < LT::N; ++j)
    {
        if (LT::kind[j] == K_FIXED)
        {
            usize f = verif_nondet_size();
            verif_assume(f <= SMAX);
            m.fixed[j] = verif_fork(f);
        }
    }
    usize cap = verif_nondet_size(), k = verif_nondet_size();
    verif_assume(cap <= 2 && k <= kmax && k <= cap);
    cap = verif_fork(cap);
    k = verif_fork(k);
    m.cap = cap;
    m.budget = cap * SMAX * 8 * LT::NVARY;
    Vec v = make_vec<LT, Vec>(cap, m.budget, m.fixed, Alloc(id));
    for (usize i = 0; i < KMAX; ++i)
    {
        if (i < k)
        {
            const auto e = draw_elem<LT>(m);
            verif_assume(has_room(m, e));
            emplace_elem<LT>(v, e);
            m.e[m.n++] = e;
        }
    }
    g_alloc_failures = saved;
    return v;
}

// weak validity after a failed operation: size() equals the number of live elements the vector holds (its Tr objects are
// counted through the lifetime ledger), and it is still assignable
template <class... P>
usize tr_per_elem_fixed(const M& m, L<P...>)
{
    const bool is_tr[LT::N] = {std::is_same_v<typename PI<P>::V, Tr>...};
    usize n = 0;
    for (usize j = 0; j < LT::N; ++j)
    {
        if (is_tr[j] && LT::kind[j] != K_VARY)
        {
            n += LT::kind[j] == K_FIXED ? m.fixed[j] : 1;
        }
    }
    return n;
}

extern "C" void h_entry()
{
    g_alloc_failures = 0;
    {
        M ma{};
        Vec a = build(ma, 2, ID_A);
        inv<LT>(a, ma, 100);
        const usize blocks0 = verif_live_blocks();
        const usize objs0 = verif_live_objs();
        bool thrown = false;
        if constexpr (OP == OP_CONSTRUCT)
        {
            try
            {
                Vec c = make_vec<LT, Vec>(2, 16 * LT::NVARY, ma.fixed, Alloc(ID_B));
                verif_assert(c.size() == 0 && c.capacity() == 2, 201);
            }
            catch (const OOM&)
            {
                thrown = true;
            }
            verif_assert(verif_live_blocks() == blocks0, 9201);  // nothing leaked, nothing freed twice
        }
        else if constexpr (OP == OP_RESERVE)
        {
            usize n = verif_nondet_size();
            verif_assume(n <= 3);
            n = verif_fork(n);
            const usize bytes = n * SMAX * 8 * LT::NVARY;
            try
            {
                a.reserve(n, bytes);
                if (n > ma.cap)
                {
                    ma.cap = n;
                    ma.budget = bytes;
                }
            }
            catch (const OOM&)
            {
                thrown = true;
                verif_assert(verif_live_blocks() == blocks0, 9201);
            }
            inv<LT>(a, ma, 200);  // reserve leaves the vector completely unchanged when it fails
            verif_assert(verif_live_objs() == objs0, 297);
        }
        else if constexpr (OP == OP_COPY_CTOR)
        {
            try
            {
                Vec c(a);
                M mc = ma;
                mc.cap_exact = false;
                inv<LT>(c, mc, 300);
            }
            catch (const OOM&)
            {
                thrown = true;
            }
            verif_assert(verif_live_blocks() == blocks0, 9201);
            verif_assert(verif_live_objs() == objs0, 297);
            inv<LT>(a, ma, 200);  // the source is completely unchanged
        }
        else if constexpr (OP == OP_COPY_ASSIGN || OP == OP_MOVE_ASSIGN)
        {
            M mb{};
            Vec b = build(mb, 1, ID_B);
            inv<LT>(b, mb, 200);
            try
            {
                if constexpr (OP == OP_COPY_ASSIGN)
                {
                    b = a;
                }
                else
                {
                    b = std::move(a);
                }
                mb = ma;
                mb.cap_exact = false;
                inv<LT>(b, mb, 300);
            }
            catch (const OOM&)
            {
                thrown = true;
                // every operand remains valid: size() equals its number of live elements, destructible, assignable
                if constexpr (OP == OP_COPY_ASSIGN)
                {
                    inv<LT>(a, ma, 400);
                }
                const usize held_b = verif_live_objs() - (OP == OP_COPY_ASSIGN ? tr_count<LT>(ma) : 0);
                if (LT::NVARY == 0)
                {
                    if (OP == OP_COPY_ASSIGN)
                    {
                        verif_assert(held_b == b.size() * tr_per_elem_fixed(mb, LT{}) || held_b == b.size() * tr_per_elem_fixed(ma, LT{}), 9210);
                    }
                }
                else if (OP == OP_COPY_ASSIGN)
                {
                    verif_assert((b.size() == 0) == (held_b == 0) || tr_count<LT>(mb) == 0, 9210);
                }
                if constexpr (OP == OP_COPY_ASSIGN)
                {
                    // still assignable (no further failure is injected): by copy, or by move from a small vector of another allocator
                    usize how = verif_nondet_size();
                    verif_assume(how < 2);
                    how = verif_fork(how);
                    if (how == 0)
                    {
                        b = a;
                        M m2 = ma;
                        m2.cap_exact = false;
                        inv<LT>(b, m2, 500);
                    }
                    else
                    {
                        M mc{};
                        for (usize j = 0; j < LT::N; ++j)
                        {
                            mc.fixed[j] = ma.fixed[j] ? 1 : 0;
                        }
                        mc.cap = 1;
                        mc.budget = 8 * LT::NVARY;
                        Vec c = make_vec<LT, Vec>(1, mc.budget, mc.fixed, Alloc(ID_A));
                        const auto e = draw_elem<LT>(mc, 1);
                        if (has_room(mc, e))
                        {
                            emplace_elem<LT>(c, e);
                            mc.e[mc.n++] = e;
                        }
                        b = std::move(c);
                        mc.cap_exact = false;
                        inv<LT>(b, mc, 600);
                    }
                }
                else
                {
                    usize how = verif_nondet_size();
                    verif_assume(how < 2);
                    how = verif_fork(how);
                    if (how == 0)
                    {
                        b.clear();
                        verif_assert(b.size() == 0, 501);
                    }
                    else
                    {
                        // both operands are still usable: the same assignment succeeds when it is repeated without a failure
                        const M ma0 = ma;
                        b = std::move(a);
                        mb = ma0;
                        mb.cap_exact = false;
                        inv<LT>(b, mb, 700);
                    }
                }
            }
        }
        else
        {
            verif_assume(ma.n >= 1);
            const auto r0 = a[0];
            if constexpr (OP == OP_ELEM_CTOR)
            {
                usize how = verif_nondet_size();
                verif_assume(how < 4);
                how = verif_fork(how);
                if (how == 0)
                {
                    try
                    {
                        Elem e(r0, EAlloc(ID_B));
                        check_elem<LT>(typename Vec::reference(e), ma.e[0], 300);
                    }
                    catch (const OOM&)
                    {
                        thrown = true;
                    }
                    verif_assert(verif_live_blocks() == blocks0, 9201);
                    verif_assert(verif_live_objs() == objs0, 297);
                }
                else
                {
                    // construction from another element: plain copy, allocator-extended copy, allocator-extended move (unequal instance)
                    const int saved = g_alloc_failures;
                    g_alloc_failures = 1;
                    Elem src(r0, EAlloc(ID_A));
                    g_alloc_failures = saved;
                    const usize blocks1 = verif_live_blocks(), objs1 = verif_live_objs();
                    try
                    {
                        if (how == 1)
                        {
                            Elem e(src);
                            check_elem<LT>(typename Vec::reference(e), ma.e[0], 300);
                        }
                        else if (how == 2)
                        {
                            Elem e(src, EAlloc(ID_B));
                            check_elem<LT>(typename Vec::reference(e), ma.e[0], 300);
                        }
                        else
                        {
                            Elem e(std::move(src), EAlloc(ID_B));
                            check_elem<LT>(typename Vec::reference(e), ma.e[0], 300);
                        }
                    }
                    catch (const OOM&)
                    {
                        thrown = true;
                        verif_assert(verif_live_blocks() == blocks1, 9201);
                        verif_assert(verif_live_objs() == objs1, 297);
                        check_elem<LT>(typename Vec::reference(src), ma.e[0], 400);  // nothing was transferred: the source is intact
                    }
                }
                inv<LT>(a, ma, 200);
            }
            else
            {
                const int saved = g_alloc_failures;
                g_alloc_failures = 1;
                Elem e(r0, EAlloc(ID_A));
                const usize i1 = ma.n > 1 ? 1 : 0;
                const auto r1 = a[i1];
                Elem f(r1, EAlloc(ID_B));
                g_alloc_failures = saved;
                usize how = verif_nondet_size();
                verif_assume(how < 2);
                how = verif_fork(how);
                try
                {
                    if (how == 0)
                    {
                        f = e;
                    }
                    else
                    {
                        f = std::move(e);
                    }
                    check_elem<LT>(typename Vec::reference(f), ma.e[0], 300);
                }
                catch (const OOM&)
                {
                    thrown = true;
                    if (how == 0)
                    {
                        check_elem<LT>(typename Vec::reference(e), ma.e[0], 400);
                    }
                    if (how == 0)
                    {
                        usize again = verif_nondet_size();
                        verif_assume(again < 2);
                        again = verif_fork(again);
                        if (again == 0)
                        {
                            f = e;  // still assignable
                        }
                        else
                        {
                            f = std::move(e);
                        }
                        check_elem<LT>(typename Vec::reference(f), ma.e[0], 500);
                    }
                    else
                    {
                        f = e;
                    }
                }
                inv<LT>(a, ma, 200);
            }
        }
        if (thrown)
        {
            verif_reach(2);
        }
        verif_reach(1);
    }
    verif_assert(verif_live_objs() == 0, 9100);
    verif_assert(verif_live_blocks() == 0, 9101);
}
