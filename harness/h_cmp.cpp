// C13 (equality == equal logical content) and C14 (relational operators consistent, content-only).
//  PART 1  ==/!= between references, const references and elements (every operand-kind combination) vs. the model
//  PART 2  ==/!= between vectors (equal, one field differs, strict prefix, empty, different fixed sizes, different allocators)
//  PART 3  <,<=,>,>= laws on triples of elements, all operand kinds agree, content-only (a second vector holds the same
//          logical content in different memory)
//  PART 4  vector < vector is the lexicographical comparison of the element sequences under the element-level <; laws
// Fresh memory is solver-chosen junk, so padding bytes and spare capacity are adversarial.
#include "model.hpp"

#include <algorithm>
#include <cstring>

#ifndef LIST
#define LIST u8, cntgs::AlignAs<u32, 4>
#endif
#ifndef PART
#define PART 1
#endif
#ifndef KV
#define KV 2  // elements per vector (0..KV)
#endif
#ifndef DOMAIN
#define DOMAIN 0  // >0: every value is drawn from [0, DOMAIN) so that ties occur
#endif

using LT = L<LIST>;
using Alloc = SAlloc<std::byte, 0>;
using Vec = LT::Vec<Alloc>;
using Alloc2 = SAlloc<std::byte, AF_POCCA>;  // a different allocator type: comparisons between vectors with different options
using Vec2 = LT::Vec<Alloc2>;
using Elem = typename Vec::value_type;
using Ref = typename Vec::reference;
using CRef = typename Vec::const_reference;
using M = Model<LT::N>;
using ME = MElem<LT::N>;

template <class... P>
constexpr std::array<u64, sizeof...(P)> masks(L<P...>)
{
    return {VMASK<typename PI<P>::V>...};
}

template <class... P>
static void assume_no_nan(const ME& e, L<P...>)
{
    using Cmp = bool (*)(u64, u64);
    const Cmp cmp[LT::N] = {&code_eq<typename PI<P>::V>...};
    for (usize j = 0; j < LT::N; ++j)
    {
        for (usize t = 0; t < (SMAX ? SMAX : 1); ++t)
        {
            if (t < e.len[j])
            {
                verif_assume(cmp[j](e.val[j][t], e.val[j][t]));  // x == x: excludes NaN (== is not reflexive for NaN by IEEE)
            }
        }
    }
}

static ME draw(const M& m)
{
    ME e = draw_elem<LT>(m, SMAX);
    assume_no_nan(e, LT{});
    if (DOMAIN > 0)
    {
        for (usize j = 0; j < LT::N; ++j)
        {
            for (usize t = 0; t < (SMAX ? SMAX : 1); ++t)
            {
                if (t < e.len[j] && !LT::is_count(j))
                {
                    verif_assume(e.val[j][t] < DOMAIN);
                }
            }
        }
    }
    return e;
}

// discriminator of known finding KF-cmp-padding: with the define, memory obtained from the allocator is zero-filled, i.e. the
// claim is restricted to "all padding bytes equal"
template <class V>
static void zero_fill(V& v)
{
#ifdef KF_CMP_PADDING
    std::memset(v.data_begin(), 0, v.memory_consumption());
#else
    (void)v;
#endif
}

template <class... P>
constexpr bool all_integral(L<P...>)
{
    return (std::is_integral_v<typename PI<P>::V> && ...);
}

template <class V>
static V build(M& m, usize kmin, usize kmax, int id, bool draw_fixed = true)
{
    if (draw_fixed)
    {
        for (usize j = 0; j < LT::N; ++j)
        {
            if (LT::kind[j] == K_FIXED)
            {
                usize f = verif_nondet_size();
                verif_assume(f <= SMAX);
                m.fixed[j] = verif_fork(f);
            }
        }
    }
    usize k = verif_nondet_size();
    verif_assume(k >= kmin && k <= kmax);
    k = verif_fork(k);
    usize spare = verif_nondet_size();
    verif_assume(spare <= 1);
    spare = verif_fork(spare);
    m.cap = k + spare;  // spare capacity is junk as well
    m.budget = (k + spare) * SMAX * 8 * LT::NVARY;
    V v = make_vec<LT, V>(m.cap, m.budget, m.fixed, typename V::allocator_type(id));
    zero_fill(v);
    for (usize i = 0; i < KMAX; ++i)
    {
        if (i < k)
        {
            const auto e = draw(m);
            emplace_elem<LT>(v, e);
            m.e[m.n++] = e;
        }
    }
    // history: the same logical content may have been reached by adding one more element and removing it again
#if PART != 2
    if (false)  // the history variant belongs to the vector-equality part; the relational parts rebuild the content in other memory
#elif defined(KF_CMP_HISTORY)
    // discriminator of KF-cmp-history: lists whose vectors compare by whole-buffer memcmp (all value types integral) do not get
    // the "element added and removed again" history
    if (spare == 1 && !all_integral(LT{}))
#else
    if (spare == 1)
#endif
    {
        usize hist = verif_nondet_size();
        verif_assume(hist < 3);
        hist = verif_fork(hist);
        if (hist != 0)
        {
            const auto extra = draw(m);
            emplace_elem<LT>(v, extra);
            if (hist == 1)
            {
                v.pop_back();
            }
            else
            {
                v.erase(v.begin() + m.n);
            }
        }
    }
    return v;
}

// a second vector with the same logical content as m, different capacity and therefore different junk and addresses
static Vec rebuild(const M& m, int id)
{
    M c = m;
    Vec v = make_vec<LT, Vec>(m.n + 1, (m.n + 1) * SMAX * 8 * LT::NVARY, m.fixed, Alloc(id));
    zero_fill(v);
    for (usize i = 0; i < KMAX; ++i)
    {
        if (i < m.n)
        {
            emplace_elem<LT>(v, m.e[i]);
        }
    }
    (void)c;
    return v;
}

template <class... P>
static bool m_eq_impl(const ME& a, const ME& b, L<P...>)
{
    using Cmp = bool (*)(u64, u64);
    const Cmp cmp[LT::N] = {&code_eq<typename PI<P>::V>...};
    bool eq = true;
    for (usize j = 0; j < LT::N; ++j)
    {
        if (a.len[j] != b.len[j])
        {
            return false;
        }
        for (usize t = 0; t < (SMAX ? SMAX : 1); ++t)
        {
            if (t < a.len[j])
            {
                eq = eq && cmp[j](a.val[j][t], b.val[j][t]);
            }
        }
    }
    return eq;
}
static bool m_eq(const ME& a, const ME& b)
{
    return m_eq_impl(a, b, LT{});
}
static bool m_eq(const M& a, const M& b)
{
    if (a.n != b.n)
    {
        return false;
    }
    bool eq = true;
    for (usize i = 0; i < KMAX; ++i)
    {
        if (i < a.n)
        {
            eq = eq && m_eq(a.e[i], b.e[i]);
        }
    }
    return eq;
}

template <class A, class B>
void eq_laws(const A& a, const B& b, bool expected, int id)
{
    verif_assert((a == b) == expected, id);
    verif_assert((a != b) == !expected, id + 1);
    verif_assert((b == a) == expected, id + 2);  // symmetry
    verif_assert((b != a) == !expected, id + 3);
}

static void part1()
{
    M ma{}, mb{};
    Vec va = build<Vec>(ma, 1, 1, 1);
    Vec vb = build<Vec>(mb, 1, 1, 2);
    const bool expected = m_eq(ma.e[0], mb.e[0]);
    const Vec& cva = va;
    const Vec& cvb = vb;
    const Ref ra = va[0], rb = vb[0];
#ifdef KF_EQ_SHAPE
    {
        // discriminator of KF-eq-shape at element level: different fixed sizes whose memcmp runs nevertheless have equal byte length
        bool fixed_equal = true;
        for (usize j = 0; j < LT::N; ++j)
        {
            fixed_equal = fixed_equal && ma.fixed[j] == mb.fixed[j];
        }
        verif_assume(fixed_equal || ra.size_in_bytes() != rb.size_in_bytes());
    }
#endif
    const CRef ca = cva[0], cb = cvb[0];
    eq_laws(ra, rb, expected, 110);
    eq_laws(ra, cb, expected, 120);
    eq_laws(ca, cb, expected, 130);
    Elem ea(ra), eb(cb);
    eq_laws(ea, eb, expected, 140);
    eq_laws(ea, rb, expected, 150);
    eq_laws(ea, cb, expected, 160);
    eq_laws(ra, eb, expected, 170);
    verif_assert(ra == ra && !(ra != ra) && ca == ra && ea == ea && ea == ra && ra == ea, 180);  // reflexivity
    // spare capacity: an element that keeps the (possibly larger) block of an earlier value compares by content only
    bool same_fixed_sizes = true;
    for (usize j = 0; j < LT::N; ++j)
    {
        same_fixed_sizes = same_fixed_sizes && ma.fixed[j] == mb.fixed[j];
    }
    if (same_fixed_sizes)
    {
        Elem ex(rb);
        ex = ea;
        eq_laws(ex, ea, true, 190);
        eq_laws(ex, eb, expected, 194);
        verif_assert((ex == ra) && (ex == ca) && (ra == ex), 198);
    }
}

static void part2()
{
    M ma{}, mb{};
    Vec va = build<Vec>(ma, 0, KV, 1);
    usize same_fixed = verif_nondet_size();
    verif_assume(same_fixed < 2);
    same_fixed = verif_fork(same_fixed);
    if (same_fixed)
    {
        for (usize j = 0; j < LT::N; ++j)
        {
            mb.fixed[j] = ma.fixed[j];
        }
    }
    Vec vb = build<Vec>(mb, 0, KV, 2, !same_fixed);
    bool fixed_equal = true;
    for (usize j = 0; j < LT::N; ++j)
    {
        fixed_equal = fixed_equal && ma.fixed[j] == mb.fixed[j];
    }
    const bool expected = m_eq(ma, mb);
    const Vec& cva = va;
    const Vec& cvb = vb;
#ifdef KF_EQ_SHAPE
    // discriminator of KF-eq-shape: different element counts / fixed sizes whose data nevertheless has the same byte length
    verif_assume((fixed_equal && ma.n == mb.n) || (cva.data_end() - cva.data_begin()) != (cvb.data_end() - cvb.data_begin()));
#endif
    eq_laws(cva, cvb, expected, 210);
    eq_laws(va, vb, expected, 220);
    verif_assert(va == va && !(va != va), 230);
    // same logical content in a vector of a different allocator type and capacity
    M mc = mb;
    Vec2 vc = make_vec<LT, Vec2>(mb.n + 1, (mb.n + 1) * SMAX * 8 * LT::NVARY, mb.fixed, Alloc2(7));
    zero_fill(vc);
    for (usize i = 0; i < KMAX; ++i)
    {
        if (i < mb.n)
        {
            emplace_elem<LT>(vc, mb.e[i]);
        }
    }
    verif_assert((va == vc) == expected && (va != vc) == !expected, 240);
    verif_assert(vb == vc && !(vb != vc), 250);
    (void)mc;
    (void)fixed_equal;
    // a moved-from vector that reports size() == 0 holds no elements: it equals exactly the empty vectors, itself included
    Vec vm(std::move(va));
    if (va.size() == 0)
    {
        eq_laws(va, vb, mb.n == 0, 260);
        verif_assert(va == va && !(va != va), 264);
        verif_assert((va == vm) == (ma.n == 0), 265);
    }
}

// ---- relational ------------------------------------------------------------------------------------------------------
template <class A, class B>
void rel_laws(const A& a, const B& b, int id)
{
    const bool lt = a < b, gt = a > b, le = a <= b, ge = a >= b, tl = b < a;
    verif_assert(gt == tl, id);
    verif_assert(le == !tl, id + 1);
    verif_assert(ge == !lt, id + 2);
    verif_assert(!(lt && tl), id + 3);  // asymmetric
    verif_assert(!lt || a != b, id + 4);
    verif_assert(!(a == b) || (!lt && !tl), id + 5);
}

static void part3()
{
    M m{};
    Vec v = build<Vec>(m, 3, 3, 1);
    Vec w = rebuild(m, 2);
    const Vec& cv = v;
    const Ref a = v[0], b = v[1], c = v[2];
    const CRef ca = cv[0], cb = cv[1], cc = cv[2];
    const Ref a2 = w[0], b2 = w[1], c2 = w[2];
    Elem ea(a), eb(b), ec(c);
    rel_laws(a, b, 310);
    rel_laws(b, c, 310);
    rel_laws(a, c, 310);
    verif_assert(!(a < a) && !(ea < ea) && !(a > a) && a <= a && a >= a, 320);       // irreflexive
    verif_assert(!((a < b) && (b < c)) || (a < c), 321);                              // transitive
    // operand kinds agree on identical content
    const bool ab = a < b, ba = b < a;
    verif_assert((ca < cb) == ab && (a < cb) == ab && (ca < b) == ab, 330);
    verif_assert((ea < eb) == ab && (ea < b) == ab && (a < eb) == ab && (ea < cb) == ab, 331);
    verif_assert((eb < ea) == ba && (cb < ea) == ba, 332);
    verif_assert((ea <= eb) == (a <= b) && (ea >= eb) == (a >= b) && (ea > eb) == (a > b), 333);
    verif_assert((a <= eb) == (a <= b) && (a >= eb) == (a >= b) && (a > eb) == (a > b), 334);
    verif_assert((ea <= b) == (a <= b) && (ea >= b) == (a >= b) && (ea > b) == (a > b), 335);
    // content only: the same logical content held in other memory compares the same
    verif_assert((a2 < b2) == ab && (b2 < a2) == ba && (a < b2) == ab && (a2 < b) == ab, 340);
    verif_assert((b2 < c2) == (b < c) && (a2 < c2) == (a < c), 341);
    verif_assert((a2 == b2) == (a == b), 342);
    rel_laws(ea, eb, 350);
    rel_laws(ea, b, 360);
    rel_laws(a, eb, 370);
}

template <class VA, class VB>
bool lex(const VA& a, const VB& b)
{
    return std::lexicographical_compare(a.begin(), a.end(), b.begin(), b.end(), [](const auto& x, const auto& y) { return x < y; });
}

static void part4()
{
    M ma{}, mb{}, mc{};
    Vec va = build<Vec>(ma, 0, KV, 1);
    for (usize j = 0; j < LT::N; ++j)
    {
        mb.fixed[j] = ma.fixed[j];
        mc.fixed[j] = ma.fixed[j];
    }
#ifdef INDEP_FIXED  // the second vector has fixed sizes of its own (0 vs. non-zero: one side's memcmp run may be empty)
    Vec vb = build<Vec>(mb, 0, KV, 2, true);
#else
    Vec vb = build<Vec>(mb, 0, KV, 2, false);
#endif
    Vec vc = build<Vec>(mc, 0, 1, 3, false);
    const Vec& a = va;
    const Vec& b = vb;
    const Vec& c = vc;
#ifdef KF_EQ_SHAPE
    // discriminator of KF-eq-shape: different element counts whose data nevertheless has the same byte length (memcmp equality)
    {
        const auto la = a.data_end() - a.data_begin(), lb = b.data_end() - b.data_begin(), lc = c.data_end() - c.data_begin();
        verif_assume((ma.n == mb.n || la != lb) && (mb.n == mc.n || lb != lc) && (ma.n == mc.n || la != lc));
#ifdef INDEP_FIXED
        bool fixed_equal = true;
        for (usize j = 0; j < LT::N; ++j)
        {
            fixed_equal = fixed_equal && ma.fixed[j] == mb.fixed[j];
        }
        verif_assume(fixed_equal || (la != lb && lb != lc));
#endif
    }
#endif
#ifdef KF_LT_PARTIAL
    // discriminator of KF-lt-partial: corresponding elements that are neither equal nor ordered by the element-level <
    for (usize i = 0; i < KV; ++i)
    {
        if (i < ma.n && i < mb.n)
        {
            verif_assume(a[i] < b[i] || b[i] < a[i] || a[i] == b[i]);
        }
        if (i < mb.n && i < mc.n)
        {
            verif_assume(c[i] < b[i] || b[i] < c[i] || c[i] == b[i]);
        }
        if (i < ma.n && i < mc.n)
        {
            verif_assume(a[i] < c[i] || c[i] < a[i] || a[i] == c[i]);
        }
    }
#endif
    rel_laws(a, b, 410);
    rel_laws(b, c, 410);
    verif_assert((a < b) == lex(a, b), 420);  // lexicographical under the element-level <
    verif_assert((b < a) == lex(b, a), 421);
    verif_assert((b < c) == lex(b, c), 422);
    verif_assert(!(a < a) && a <= a && a >= a && !(a > a), 430);
    verif_assert(!((a < b) && (b < c)) || (a < c), 431);
    // content only: the same content with other capacity / allocator type
    Vec wa = rebuild(ma, 4);
    verif_assert((wa < b) == (a < b) && (b < wa) == (b < a) && (wa <= b) == (a <= b) && (wa >= b) == (a >= b), 440);
    Vec2 xa = make_vec<LT, Vec2>(ma.n, ma.n * SMAX * 8 * LT::NVARY, ma.fixed, Alloc2(9));
    zero_fill(xa);
    for (usize i = 0; i < KMAX; ++i)
    {
        if (i < ma.n)
        {
            emplace_elem<LT>(xa, ma.e[i]);
        }
    }
    verif_assert((xa < b) == (a < b) && (b < xa) == (b < a) && (b > xa) == (b > a) && (b <= xa) == (b <= a), 441);
}

extern "C" void h_entry()
{
    {
#if PART == 1
        part1();
#elif PART == 2
        part2();
#elif PART == 3
        part3();
#else
        part4();
#endif
        verif_reach(1);
    }
    verif_assert(verif_live_blocks() == 0, 9101);
}
