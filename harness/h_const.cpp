// C19: read-only use from several threads is race-free. Decided through the sufficient condition "no const operation writes to
// any memory that existed before it started" (DESIGN.md 6/C19): everything that is live is frozen, then every const operation
// runs; a store/memcpy/deallocation that targets frozen memory is a RACE-WRITE violation. Memory allocated during the
// operation (the copy, the element) is private to the calling thread and writable.
#include "model.hpp"

#ifndef LIST
#define LIST u16, cntgs::AlignAs<usize, 8>, cntgs::VaryingSize<u32>, u8
#endif
#ifndef K0
#define K0 3
#endif
#ifndef AFLAGS
#define AFLAGS 0  // AF_SOCCC: select_on_container_copy_construction hands out a different instance; then copying a shared
                  // vector must not allocate through the shared vector's own allocator instance (its state would be shared)
#endif
#ifndef WITH_ELEM
#define WITH_ELEM 0  // 1: additionally share a const ContiguousElement (needs at least one element in the vector)
#endif

using LT = L<LIST>;
using Alloc = SAlloc<std::byte, AFLAGS>;
using Vec = LT::Vec<Alloc>;
using Elem = typename Vec::value_type;
using M = Model<LT::N>;

static bool has_room(const M& m, const MElem<LT::N>& e)
{
    return m.n < m.cap && live_payload<LT>(m) + payload_bytes<LT>(e) <= m.budget;
}

static Vec build(M& m, usize kmax, int id)
{
    for (usize j = 0; j < LT::N; ++j)
    {
        if (LT::kind[j] == K_FIXED)
        {
            usize f = verif_nondet_size();
            verif_assume(f <= SMAX);
            m.fixed[j] = verif_fork(f);
        }
    }
    usize k = verif_nondet_size(), spare = verif_nondet_size();
    verif_assume(k <= kmax && spare <= 1);
    k = verif_fork(k);
    spare = verif_fork(spare);
    m.cap = k + spare;
    m.budget = m.cap * SMAX * 8 * LT::NVARY;
    Vec v = make_vec<LT, Vec>(m.cap, m.budget, m.fixed, Alloc(id));
    for (usize i = 0; i < KMAX; ++i)
    {
        if (i < k)
        {
            const auto e = draw_elem<LT>(m);
            verif_assume(has_room(m, e));
            emplace_elem<LT>(v, e);
            m.e[m.n++] = e;
        }
    }
    return v;
}

template <class V, usize... I>
usize fixed_sum(const V& v, std::index_sequence<I...>)
{
    return (usize{} + ... + v.template get_fixed_size<I>());
}

// every const operation of the vector, its references and iterators; runs while all pre-existing memory is frozen
__attribute__((noinline)) static void reader(const Vec& v, const Vec& w, const M& m, const M& mw)
{
    verif_assert(v.size() == m.n && v.empty() == (m.n == 0) && v.capacity() == m.cap, 201);
    verif_assert(v.data_end() - v.data_begin() <= static_cast<std::ptrdiff_t>(v.memory_consumption()), 202);
    verif_assert(v.get_allocator().id == 1, 203);
    (void)fixed_sum(v, std::make_index_sequence<LT::NFIXED>{});
    usize i = 0;
    for (auto it = v.begin(); it != v.end(); ++it, ++i)
    {
        if (i < KMAX)
        {
            check_elem<LT>(*it, m.e[i], 300);
            check_elem<LT>(v[i], m.e[i], 300);
            verif_assert(addr_of(it.data()) == addr_of(v[i].data_begin()), 204);
        }
    }
    verif_assert(i == m.n && v.cend() - v.cbegin() == static_cast<std::ptrdiff_t>(m.n), 205);
    if (m.n > 0)
    {
        check_elem<LT>(v.front(), m.e[0], 300);
        check_elem<LT>(v.back(), m.e[m.n - 1], 300);
        Elem el(v[0]);  // constructing an element from a const reference of the shared vector
        check_elem<LT>(typename Vec::const_reference(el), m.e[0], 400);
        verif_assert(el == v[0] && !(el < v[0]) && v[0] == el && v[0] <= el, 401);
    }
    // all six comparisons with itself and with a second shared vector
    const bool eq = v == w, ne = v != w, lt = v < w, le = v <= w, gt = v > w, ge = v >= w;
    verif_assert(eq == !ne && le == !gt && ge == !lt, 210);
    verif_assert(v == v && !(v != v) && !(v < v) && v <= v && v >= v && !(v > v), 211);
    (void)mw;
    // copying it; the copy is private and may be mutated while the original stays shared
    Vec c(v);
    M mc = m;
    mc.cap = c.capacity();
    mc.cap_exact = false;
    verif_assert(c == v, 220);
    c.reserve(m.n + 1, live_payload<LT>(m) + SMAX * 8 * LT::NVARY);
    if (m.n + 1 > mc.cap)
    {
        mc.cap = m.n + 1;
        mc.budget = live_payload<LT>(m) + SMAX * 8 * LT::NVARY;
        mc.cap_exact = true;
        const auto e = draw_elem<LT>(mc);
        if (has_room(mc, e) && mc.n < KMAX)
        {
            emplace_elem<LT>(c, e);
            mc.e[mc.n++] = e;
        }
    }
    inv<LT>(c, mc, 500);
    if (mc.n > 0)
    {
        c.pop_back();
        --mc.n;
    }
    c.clear();
    Vec d(w);
    d = v;  // copy assignment FROM the shared vector into a private one
    Vec c2(v);
    swap(c, c2);  // swapping two private copies (equal allocators)
    verif_assert(c == v && d == v, 221);
}

// const operations on a shared const element: reads, comparisons, copy construction (also allocator-extended), copy assignment
// FROM it into private elements of smaller and larger size, construction of references from it
__attribute__((noinline)) static void element_reader(const Elem& shared, const Vec& v, const M& m)
{
    check_elem<LT>(typename Vec::const_reference(shared), m.e[0], 600);
    verif_assert(shared == v[0] && !(shared != v[0]) && !(shared < v[0]) && shared <= v[0] && v[0] >= shared, 610);
    verif_assert(shared == shared && !(shared != shared), 611);
    Elem mine(shared);  // copy construction from the shared element
    check_elem<LT>(typename Vec::const_reference(mine), m.e[0], 620);
    Elem other(shared, typename Elem::allocator_type(5));
    check_elem<LT>(typename Vec::const_reference(other), m.e[0], 630);
    const usize last = m.n - 1;
    Elem priv(v[last]);  // a private element, possibly of a different varying size
    priv = shared;       // copy assignment FROM the shared element
    check_elem<LT>(typename Vec::const_reference(priv), m.e[0], 640);
    check_elem<LT>(typename Vec::const_reference(shared), m.e[0], 650);
    Elem priv2(v[last], typename Elem::allocator_type(6));
    priv2 = shared;
    check_elem<LT>(typename Vec::const_reference(priv2), m.e[0], 660);
}

#ifdef TR_THROWS
// fault schedule: while the vector is shared, a thread copies it (or constructs an element from one of its references) and the
// copy constructor of the k-th stored object throws; whatever the copier does to clean up must not touch the shared vector
__attribute__((noinline)) static void throwing_copier(const Vec& v, const M& m)
{
    usize k = verif_nondet_size(), what = verif_nondet_size();
    verif_assume(k >= 1 && k <= 4 && what < 2);
    k = verif_fork(k);
    what = verif_fork(what);
    verif_thaw_obj(&g_tr_copy_countdown);
    g_tr_copy_countdown = static_cast<int>(k);
    try
    {
        if (what == 0)
        {
            Vec c(v);
            g_tr_copy_countdown = 0;
            verif_assert(c.size() == m.n, 701);
        }
        else if (m.n > 0)
        {
            Elem e(v[0]);
            g_tr_copy_countdown = 0;
            check_elem<LT>(typename Vec::const_reference(e), m.e[0], 710);
        }
    }
    catch (const TrThrow&)
    {
    }
    g_tr_copy_countdown = 0;
}
#endif

extern "C" void h_entry()
{
    {
        M m{}, mw{};
        Vec v = build(m, K0, 1);
        Vec w = build(mw, 1, 2);
#if WITH_ELEM
        verif_assume(m.n >= 1);
        const auto r0 = v[0];
        const Elem shared(r0);
#endif
        verif_freeze();
        if ((AFLAGS & AF_SOCCC) != 0)
        {
            verif_freeze_allocs();
        }
#if WITH_ELEM
        element_reader(shared, v, m);
#elif defined(TR_THROWS)
        (void)w;
        (void)mw;
        throwing_copier(v, m);
#else
        reader(v, w, m, mw);
#endif
        verif_thaw();
        Vec& mv = v;
        inv<LT>(mv, m, 100);
        verif_reach(1);
    }
    verif_assert(verif_live_objs() == 0, 9100);
    verif_assert(verif_live_blocks() == 0, 9101);
}
