// C09 (value semantics of copy/move/swap), C08 (allocator propagation), C05 (footprint clause), C07 (ledger), C16 (swap and
// move construction do not allocate), C06 on the non-trivial lists: two vectors with independent symbolic pre-states, one
// compile-time chosen operation, Inv on both sides against the tuple-sequence models, then a mutation of one side
// (independence) and use of the moved-from operand.
#include "model.hpp"

#ifndef LIST
#define LIST u16, cntgs::AlignAs<usize, 8>, cntgs::VaryingSize<u32>, u8
#endif
#ifndef AFLAGS
#define AFLAGS AF_ALWAYS_EQUAL
#endif
#ifndef OP
#define OP OP_COPY_ASSIGN
#endif
#ifndef KA
#define KA 2
#endif
#ifndef KB
#define KB 1
#endif
#ifndef BMAX
#define BMAX 48
#endif
#ifndef EQ_IDS
#define EQ_IDS 0  // 1: both vectors use equal allocator instances
#endif

enum : int
{
    OP_COPY_CTOR = 1,
    OP_COPY_ASSIGN = 2,
    OP_MOVE_CTOR = 3,
    OP_MOVE_ASSIGN = 4,
    OP_SWAP = 5,
    OP_SELF = 6
};

using LT = L<LIST>;
using Alloc = SAlloc<std::byte, AFLAGS>;
using Vec = LT::Vec<Alloc>;
using M = Model<LT::N>;
constexpr bool ALWAYS_EQ = (AFLAGS & AF_ALWAYS_EQUAL) != 0;
constexpr bool POCCA = (AFLAGS & AF_POCCA) != 0, POCMA = (AFLAGS & AF_POCMA) != 0, POCS = (AFLAGS & AF_POCS) != 0;
constexpr int ID_A = ALWAYS_EQ ? 0 : 1, ID_B = ALWAYS_EQ ? 0 : (EQ_IDS ? 1 : 2);

static bool has_room(const M& m, const MElem<LT::N>& e)
{
    return m.n < m.cap && live_payload<LT>(m) + payload_bytes<LT>(e) <= m.budget;
}

// pre-state: capacity, byte budget, fixed sizes, k elements
static Vec build(M& m, usize kmax, int id)
{
    for (usize j = 0; j < LT::N; ++j)
    {
        if (LT::kind[j] == K_FIXED)
        {
            usize f = verif_nondet_size();
            verif_assume(f <= SMAX);
            m.fixed[j] = verif_fork(f);
        }
    }
    const usize cap = verif_nondet_size(), budget = verif_nondet_size();
    verif_assume(cap <= KMAX - 1 && budget <= BMAX);
    usize k = verif_nondet_size();
    verif_assume(k <= kmax && k <= cap);
    k = verif_fork(k);
    Vec v = make_vec<LT, Vec>(cap, LT::NVARY ? budget : 0, m.fixed, Alloc(id));
    m.cap = cap;
    m.budget = LT::NVARY ? budget : 0;
    for (usize i = 0; i < KMAX; ++i)
    {
        if (i < k)
        {
            const auto e = draw_elem<LT>(m);
            verif_assume(has_room(m, e));
            emplace_elem<LT>(v, e);
            m.e[m.n++] = e;
        }
    }
    return v;
}

// after a copy/move the capacity of the target is what the implementation says it is; the byte budget is unknown, so room is
// made explicitly with reserve before the independence probe
static void adopt(M& target, const M& source, const Vec& v)
{
    const bool exact = target.cap_exact;
    target = source;
    target.cap = v.capacity();
    target.cap_exact = false;
    (void)exact;
}

static void mutate(Vec& v, M& m, int base)
{
    // independence probe: overwrite/erase/append on one side
    usize what = verif_nondet_size();
    verif_assume(what < 3);
    what = verif_fork(what);
    if (what == 0 && m.n > 0)
    {
#ifdef KF_ERASE_OVERLAP
        verif_assume(!erase_overlaps<LT>(m, 0, 1));
#endif
        v.erase(v.begin());
        m_erase(m, 0, 1);
    }
    else if (what == 1)
    {
        // the target of a copy/move reports a capacity and inherits the byte budget of its source (C02): an element that fits
        // within those limits is appended without reserve, so an under-sized block shows as an out-of-bounds store; otherwise
        // room is made with reserve first
        const auto e = draw_elem<LT>(m);
        if (has_room(m, e) && m.n < KMAX)
        {
            emplace_elem<LT>(v, e);
            m.e[m.n++] = e;
        }
        else
        {
            const usize want_bytes = live_payload<LT>(m) + SMAX * 8 * LT::NVARY;
            v.reserve(m.n + 1, want_bytes);
            if (m.n + 1 > m.cap)
            {
                m.cap = m.n + 1;
                m.budget = want_bytes;
                m.cap_exact = true;
                if (has_room(m, e) && m.n < KMAX)
                {
                    emplace_elem<LT>(v, e);
                    m.e[m.n++] = e;
                }
            }
        }
    }
    else
    {
        v.clear();
        m.n = 0;
    }
    inv<LT>(v, m, base);
}

static void footprint(const Vec& v, usize limit, int id)
{
    verif_assert(v.memory_consumption() <= limit, id);                                                        // C05
    verif_assert(v.data_begin() == nullptr || verif_block_size(v.data_begin()) == v.memory_consumption(), id + 1);  // C05/C02
}

static usize umax(usize a, usize b) { return a > b ? a : b; }

extern "C" void h_entry()
{
    {
        M ma{}, mb{};
        Vec a = build(ma, KA, ID_A);
        inv<LT>(a, ma, 100);
        const usize a_mem = a.memory_consumption();
        if constexpr (OP == OP_COPY_CTOR)
        {
            const usize allocs0 = verif_alloc_count();
            Vec c(a);
            M mc = ma;
            mc.cap = c.capacity();
            mc.cap_exact = false;
            inv<LT>(c, mc, 200);
            inv<LT>(a, ma, 300);
            verif_assert(c.get_allocator().id == ((AFLAGS & AF_SOCCC) && !ALWAYS_EQ ? ID_A + 100 : ID_A), 801);  // C08
            verif_assert(a.get_allocator().id == ID_A, 802);
            footprint(c, a_mem, 810);
            verif_assert(verif_live_objs() == tr_count<LT>(ma) + tr_count<LT>(mc), 897);
            verif_assert(verif_alloc_count() - allocs0 <= 2, 811);
            mutate(c, mc, 400);
            inv<LT>(a, ma, 500);  // the source does not see the mutation of the copy
            mutate(a, ma, 600);
            inv<LT>(c, mc, 700);
        }
        else if constexpr (OP == OP_MOVE_CTOR)
        {
            const usize allocs0 = verif_alloc_count();
            const M ma0 = ma;
            const auto* const a_data = a.data_begin();
            Vec c(std::move(a));
            verif_assert(verif_alloc_count() == allocs0, 890);  // C16: move construction exchanges ownership without allocating
            verif_assert(c.data_begin() == a_data, 891);        // C16: ... and every stored object keeps its address
            M mc = ma0;
            inv<LT>(c, mc, 200);
            verif_assert(c.get_allocator().id == ID_A, 801);
            footprint(c, a_mem, 810);
            verif_assert(verif_live_objs() == tr_count<LT>(mc), 897);
            // the moved-from vector can be destroyed, cleared, assigned to and swapped
            usize what = verif_nondet_size();
            verif_assume(what < 5);
            what = verif_fork(what);
            if (what == 1)
            {
                a.clear();
                verif_assert(a.size() == 0 && a.empty(), 301);
            }
            else if (what == 2)
            {
                a = c;
                M m2 = mc;
                m2.cap = a.capacity();
                m2.cap_exact = false;
                inv<LT>(a, m2, 300);
            }
            else if (what == 4)
            {
                // move assignment into the moved-from vector, from a vector of another allocator instance
                M md{};
                Vec d = build(md, 1, ID_B);
                const M md0 = md;
                a = std::move(d);
                adopt(md, md0, a);
                inv<LT>(a, md, 300);
            }
            else if (what == 3)
            {
                swap(a, c);
                inv<LT>(a, mc, 300);
                verif_assert(c.size() == 0 || !LT::NVARY, 302);
            }
            if (what != 3)
            {
                mutate(c, mc, 400);
            }
        }
        else if constexpr (OP == OP_SELF)
        {
            const usize allocs0 = verif_alloc_count();
            Vec& ra = a;
            a = ra;
            inv<LT>(a, ma, 200);
            swap(a, ra);
            inv<LT>(a, ma, 300);
            a = std::move(ra);
            inv<LT>(a, ma, 400);
            verif_assert(verif_alloc_count() == allocs0, 890);
            verif_assert(a.memory_consumption() == a_mem, 810);
        }
        else
        {
            Vec b = build(mb, KB, ID_B);
            inv<LT>(b, mb, 200);
            const usize b_mem = b.memory_consumption();
            const usize allocs0 = verif_alloc_count();
            const M ma0 = ma, mb0 = mb;
            const auto* const a_data = a.data_begin();
            const auto* const b_data = b.data_begin();
            (void)a_data;
            (void)b_data;
            if constexpr (OP == OP_COPY_ASSIGN)
            {
                b = a;
                adopt(mb, ma0, b);
                inv<LT>(b, mb, 300);
                inv<LT>(a, ma, 400);
                verif_assert(b.get_allocator().id == (POCCA ? ID_A : ID_B), 801);
                verif_assert(a.get_allocator().id == ID_A, 802);
                footprint(b, umax(a_mem, b_mem), 810);
                verif_assert(verif_live_objs() == tr_count<LT>(ma) + tr_count<LT>(mb), 897);
                mutate(b, mb, 500);
                inv<LT>(a, ma, 600);
                mutate(a, ma, 700);
                inv<LT>(b, mb, 900);
            }
            else if constexpr (OP == OP_MOVE_ASSIGN)
            {
                b = std::move(a);
                adopt(mb, ma0, b);
                inv<LT>(b, mb, 300);
                verif_assert(b.get_allocator().id == (POCMA ? ID_A : ID_B), 801);
#ifdef KF_MOVE_ASSIGN_OVERALLOC
                if (ALWAYS_EQ || POCMA || ID_A == ID_B || a_mem <= b_mem)
#endif
                {
                    footprint(b, umax(a_mem, b_mem), 810);
                }
                if (ALWAYS_EQ || POCMA || ID_A == ID_B)
                {
                    verif_assert(verif_alloc_count() == allocs0, 890);  // ownership transfer, nothing requested
                    verif_assert(b.data_begin() == a_data, 891);
                    verif_assert(verif_live_objs() == tr_count<LT>(mb), 897);
                }
                // moved-from source: destroyed (scope exit), cleared, assigned to or swapped
                usize what = verif_nondet_size();
                verif_assume(what < 4);
                what = verif_fork(what);
                if (what == 1)
                {
                    a.clear();
                    verif_assert(a.size() == 0 && a.empty(), 401);
                }
                else if (what == 2)
                {
                    a = b;
                    M m2 = mb;
                    m2.cap = a.capacity();
                    inv<LT>(a, m2, 400);
                }
                else if (what == 3 && (POCS || ID_A == ID_B))
                {
                    swap(a, b);
                    inv<LT>(a, mb, 400);
                }
                if (what != 3)
                {
                    mutate(b, mb, 500);
                }
            }
            else if constexpr (OP == OP_SWAP)
            {
                if constexpr (POCS || ID_A == ID_B)
                {
                    swap(a, b);
                    verif_assert(verif_alloc_count() == allocs0, 890);  // C16
                    verif_assert(a.data_begin() == b_data && b.data_begin() == a_data, 891);
                    inv<LT>(a, mb0, 300);
                    inv<LT>(b, ma0, 400);
                    verif_assert(a.get_allocator().id == (POCS ? ID_B : ID_A), 801);
                    verif_assert(b.get_allocator().id == (POCS ? ID_A : ID_B), 802);
                    footprint(a, b_mem, 810);
                    footprint(b, a_mem, 812);
                    M m1 = mb0, m2 = ma0;
                    mutate(a, m1, 500);
                    inv<LT>(b, m2, 600);
                }
            }
        }
        verif_reach(1);
    }
    verif_assert(verif_live_objs() == 0, 9100);
    verif_assert(verif_live_blocks() == 0, 9101);
}
