// C18: empty, zero-capacity and default-constructed vectors are fully usable.
#include "model.hpp"

#ifndef LIST
#define LIST u16, cntgs::AlignAs<usize, 8>, cntgs::VaryingSize<u32>, u8
#endif

#ifndef WHAT_LO
#define WHAT_LO 0
#define WHAT_HI 8
#endif
using LT = L<LIST>;
using Alloc = SAlloc<std::byte, AF_ALWAYS_EQUAL>;
using Vec = LT::Vec<Alloc>;
using M = Model<LT::N>;

static bool has_room(const M& m, const MElem<LT::N>& e)
{
    return m.n < m.cap && live_payload<LT>(m) + payload_bytes<LT>(e) <= m.budget;
}

static void check_empty(Vec& v, int id)
{
    const Vec& cv = v;
    verif_assert(cv.size() == 0, id);
    verif_assert(cv.empty(), id + 1);
    verif_assert(cv.begin() == cv.end() && v.begin() == v.end() && cv.cbegin() == cv.cend(), id + 2);
    verif_assert(cv.data_begin() == cv.data_end(), id + 3);
    verif_assert(verif_in_live_block(cv.data_begin(), 0), id + 4);  // a valid pointer: into / one past the block, or null
    verif_assert(!(cv.end() < cv.begin()) && cv.end() - cv.begin() == 0, id + 5);
}

// one of the ways to reach an empty state
static void make_empty(Vec& v, M& m, usize way)
{
    if (way == 0)
    {
        return;  // default-constructed (v is), all fixed sizes are 0
    }
    for (usize j = 0; j < LT::N; ++j)
    {
        if (LT::kind[j] == K_FIXED)
        {
            usize f = verif_nondet_size();
            verif_assume(f <= SMAX);
            m.fixed[j] = verif_fork(f);
        }
    }
    if (way == 1)
    {
        v = make_vec<LT, Vec>(0, 0, m.fixed, Alloc{});
        m.cap = 0;
        m.budget = 0;
        return;
    }
    usize cap = verif_nondet_size();
    verif_assume(cap >= 1 && cap <= 2);
    cap = verif_fork(cap);
    m.cap = cap;
    m.budget = cap * SMAX * 8 * LT::NVARY;
    v = make_vec<LT, Vec>(m.cap, m.budget, m.fixed, Alloc{});
    if (way == 2)
    {
        return;  // never held an element
    }
    usize k = verif_nondet_size();
    verif_assume(k >= 1 && k <= cap);
    k = verif_fork(k);
    for (usize i = 0; i < 2; ++i)
    {
        if (i < k)
        {
            const auto e = draw_elem<LT>(m);
            verif_assume(has_room(m, e));
            emplace_elem<LT>(v, e);
            m.e[m.n++] = e;
        }
    }
    if (way == 3)
    {
        for (usize i = 0; i < 2; ++i)
        {
            if (i < k)
            {
                v.pop_back();
            }
        }
    }
    else if (way == 4)
    {
        v.erase(v.begin(), v.end());
    }
    else if (way == 5)
    {
        v.clear();
    }
    else
    {
        for (usize i = 0; i < 2; ++i)
        {
            if (i < k)
            {
#ifdef KF_ERASE_OVERLAP
                verif_assume(!erase_overlaps<LT>(m, 0, 1));
#endif
                v.erase(v.begin());
                m_erase(m, 0, 1);
            }
        }
    }
    m.n = 0;
}

// after reserve / emplace_back an empty vector behaves like any other vector
static void use_after(Vec& v, M& m, int base)
{
    const usize want_bytes = 2 * SMAX * 8 * LT::NVARY;
    v.reserve(2, want_bytes);
    if (m.cap < 2)
    {
        m.cap = 2;
        m.budget = want_bytes;
    }
    check_empty(v, base + 30);
    inv<LT>(v, m, base + 100);
    const auto e = draw_elem<LT>(m, 1);
    if (has_room(m, e))
    {
        emplace_elem<LT>(v, e);
        m.e[m.n++] = e;
    }
    inv<LT>(v, m, base + 200);
}

extern "C" void h_entry()
{
    {
        M m{};
        Vec v;
        usize way = verif_nondet_size(), what = verif_nondet_size();
        verif_assume(way < 7 && what >= WHAT_LO && what < WHAT_HI);  // WHAT_LO..WHAT_HI: the eight follow-ups are spread over obligations
        way = verif_fork(way);
        what = verif_fork(what);
        make_empty(v, m, way);
        check_empty(v, 110);
        inv<LT>(v, m, 200);
        const usize allocs0 = verif_alloc_count();
        switch (what)
        {
            case 0: v.clear(); break;
            case 1:
            {
                auto it = v.erase(v.begin(), v.end());
                verif_assert(it == v.begin() && it == v.end(), 301);
                break;
            }
            case 2:
            {
                Vec c(v);  // copying an empty vector
                check_empty(c, 310);
                verif_assert(c == v && !(c != v) && !(c < v) && c <= v, 320);
                break;
            }
            case 3:
            {
                M mo{};
                for (usize j = 0; j < LT::N; ++j)
                {
                    if (LT::kind[j] == K_FIXED)
                    {
                        usize f = verif_nondet_size();  // the partner's fixed sizes are independent of the empty vector's
                        verif_assume(f <= SMAX);
                        mo.fixed[j] = verif_fork(f);
                    }
                }
                mo.cap = 1;
                mo.budget = SMAX * 8 * LT::NVARY;
                Vec o = make_vec<LT, Vec>(1, mo.budget, mo.fixed, Alloc{});
                const auto e = draw_elem<LT>(mo);
                verif_assume(has_room(mo, e));
                emplace_elem<LT>(o, e);
                mo.e[mo.n++] = e;
                verif_assert(!(v == o) && v != o && !(o == v), 330);  // empty vs non-empty
                verif_assert(v < o && !(o < v) && v <= o && o > v && o >= v, 331);
                swap(v, o);  // swapping with an empty vector
                check_empty(o, 340);
                inv<LT>(v, mo, 400);
                swap(v, o);
                inv<LT>(o, mo, 500);
                break;
            }
            case 4:
            {
                Vec c;
                c = v;  // assigning an empty vector to a default-constructed one
                check_empty(c, 350);
                M mc = m;
                mc.cap = c.capacity();
                mc.cap_exact = false;
                inv<LT>(c, mc, 900);
                use_after(c, mc, 1000);
                break;
            }
            case 7:
            {
                // ... and to a non-empty vector with other fixed sizes: the target takes over the (empty) source's shape
                M mo{};
                for (usize j = 0; j < LT::N; ++j)
                {
                    if (LT::kind[j] == K_FIXED)
                    {
                        usize f = verif_nondet_size();
                        verif_assume(f <= SMAX);
                        mo.fixed[j] = verif_fork(f);
                    }
                }
                mo.cap = 1;
                mo.budget = SMAX * 8 * LT::NVARY;
                Vec d = make_vec<LT, Vec>(1, mo.budget, mo.fixed, Alloc{});
                const auto e = draw_elem<LT>(mo);
                verif_assume(has_room(mo, e));
                emplace_elem<LT>(d, e);
                d = v;
                check_empty(d, 360);
                M md = m;
                md.cap = d.capacity();
                md.cap_exact = false;
                inv<LT>(d, md, 1400);
                use_after(d, md, 1500);
                break;
            }
            case 5:
            {
                Vec c(std::move(v));
                check_empty(c, 370);
                v = std::move(c);
                break;
            }
            case 6:
            {
                Vec e2;  // another empty vector, reached differently
                verif_assert(v == e2 && !(v != e2) && !(v < e2) && !(e2 < v) && v <= e2 && v >= e2, 380);
                break;
            }
            default: break;
        }
        if (what <= 1)
        {
            verif_assert(verif_alloc_count() == allocs0, 390);
        }
        check_empty(v, 120);
        inv<LT>(v, m, 600);
        // after reserve / emplace_back it behaves like any other vector
        const usize want_bytes = 2 * SMAX * 8 * LT::NVARY;
        v.reserve(2, want_bytes);
        if (m.cap < 2)
        {
            m.cap = 2;
            m.budget = want_bytes;
        }
        check_empty(v, 130);
        inv<LT>(v, m, 700);
        for (usize i = 0; i < 2; ++i)
        {
            const auto e = draw_elem<LT>(m);
            if (has_room(m, e))
            {
                emplace_elem<LT>(v, e);
                m.e[m.n++] = e;
            }
        }
        inv<LT>(v, m, 800);
        verif_reach(1);
    }
    verif_assert(verif_live_objs() == 0, 9100);
    verif_assert(verif_live_blocks() == 0, 9101);
}
