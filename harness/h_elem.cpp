// C12: ContiguousElement (value_type) is an independent deep copy with full value semantics. Also feeds C06/C07/C08 (ledgers).
#include "model.hpp"

#ifndef LIST
#define LIST cntgs::AlignAs<usize, 8>, cntgs::VaryingSize<Tr>, Tr
#endif
#ifndef AFLAGS
#define AFLAGS AF_ALWAYS_EQUAL
#endif
#ifndef OP
#define OP OP_FROM_REF
#endif

enum : int
{
    OP_FROM_REF = 1,    // element from reference / const_reference / rvalue reference (with and without allocator argument)
    OP_ELEM_CTOR = 2,   // element from element: copy, move, allocator-extended copy and move (equal / unequal allocator)
    OP_ELEM_ASSIGN = 3, // copy / move assignment between elements of different varying sizes and allocators
    OP_ELEM_SWAP = 4,
    OP_TO_REF = 5       // element assigned (copy / move) back to a reference of equal sizes; reference->element assignment
};

using LT = L<LIST>;
using Alloc = SAlloc<std::byte, AFLAGS>;
using Vec = LT::Vec<Alloc>;
using Elem = typename Vec::value_type;
using EAlloc = typename Elem::allocator_type;
using Ref = typename Vec::reference;
using CRef = typename Vec::const_reference;
using M = Model<LT::N>;
using ME = MElem<LT::N>;
constexpr bool ALWAYS_EQ = (AFLAGS & AF_ALWAYS_EQUAL) != 0;
#ifndef TWO_ASSIGN
#define TWO_ASSIGN 0
#endif
constexpr bool POCCA = (AFLAGS & AF_POCCA) != 0, POCMA = (AFLAGS & AF_POCMA) != 0;

static Vec build(M& m)
{
    for (usize j = 0; j < LT::N; ++j)
    {
        if (LT::kind[j] == K_FIXED)
        {
            usize f = verif_nondet_size();
            verif_assume(f <= SMAX);
            m.fixed[j] = verif_fork(f);
        }
    }
    m.cap = 2;
    m.budget = 2 * SMAX * 16 * LT::NVARY;
    Vec v = make_vec<LT, Vec>(m.cap, m.budget, m.fixed, Alloc(ALWAYS_EQ ? 0 : 1));
    for (usize i = 0; i < 2; ++i)
    {
        const auto e = draw_elem<LT>(m);
        emplace_elem<LT>(v, e);
        m.e[m.n++] = e;
    }
    return v;
}

template <class R, usize... I>
u64 gen_sum(const R& r, std::index_sequence<I...>)
{
    u64 s = 0;
    (
        [&]
        {
            using P = typename LT::template At<I>;
            if constexpr (std::is_same_v<typename PI<P>::V, Tr>)
            {
                if constexpr (PI<P>::kind == K_PLAIN)
                {
                    s += cntgs::get<I>(r).gen;
                }
                else
                {
                    for (auto& x : cntgs::get<I>(r))
                    {
                        s += x.gen;
                    }
                }
            }
        }(),
        ...);
    return s;
}
static usize trs(const ME& e)
{
    M one{};
    one.n = 1;
    one.e[0] = e;
    return tr_count<LT>(one);
}

// overwrite every free value of the element/reference with fresh symbolic values (independence probe)
template <usize I, class R>
void scribble_field(const R& r, ME& e)
{
    using P = typename LT::template At<I>;
    using T = typename PI<P>::V;
    if (LT::is_count(I))
    {
        return;
    }
    if constexpr (PI<P>::kind == K_PLAIN)
    {
        const u64 x = verif_nondet_u64() & VMASK<T>;
        cntgs::get<I>(r) = mk<T>(x);
        e.val[I][0] = x;
    }
    else
    {
        for (usize t = 0; t < (SMAX ? SMAX : 1); ++t)
        {
            if (t < e.len[I])
            {
                const u64 x = verif_nondet_u64() & VMASK<T>;
                cntgs::get<I>(r)[t] = mk<T>(x);
                e.val[I][t] = x;
            }
        }
    }
}
template <class R, usize... I>
void scribble(const R& r, ME& e, std::index_sequence<I...>)
{
    (scribble_field<I>(r, e), ...);
}

static void check_el(Elem& el, const ME& e, int id)
{
    check_elem<LT>(Ref(el), e, id);
    const Elem& cel = el;
    check_elem<LT>(CRef(cel), e, id + 30);
    // the element's storage is a live block of its own, obtained from the allocator
    verif_assert(verif_in_live_block(Ref(el).data_begin(), Ref(el).size_in_bytes()), (id / 100) * 100 + 95);
}

static const auto SEQ = typename LT::Seq{};

extern "C" void h_entry()
{
    {
        M m{};
        Vec v = build(m);
        inv<LT>(v, m, 100);
        const usize vec_objs = tr_count<LT>(m);
        if constexpr (OP == OP_FROM_REF)
        {
            usize how = verif_nondet_size(), i = verif_nondet_size();
            verif_assume(how < 6 && i < 2);
            how = verif_fork(how);
            i = verif_fork(i);
            const u64 g0 = gen_sum(v[i], SEQ);
            const Vec& cv = v;
            const int id = ALWAYS_EQ ? 0 : 7;
            const usize blocks0 = verif_live_blocks();
            auto run = [&](Elem el, bool moved, int alloc_id)
            {
                check_el(el, m.e[i], 200);
                verif_assert(verif_live_blocks() == blocks0 + 1, 201 + 700);
                verif_assert(el.get_allocator().id == alloc_id, 801);
                verif_assert(gen_sum(v[i], SEQ) == g0 + (moved ? trs(m.e[i]) : 0), 260);
                verif_assert(verif_live_objs() == vec_objs + trs(m.e[i]), 297);
                ME me = m.e[i];
                scribble(Ref(el), me, SEQ);  // changing the element never changes the vector
                inv<LT>(v, m, 300);
                check_el(el, me, 400);
                scribble(v[i], m.e[i], SEQ);  // and vice versa
                check_el(el, me, 500);
                inv<LT>(v, m, 600);
            };
            const auto r = v[i];
            switch (how)
            {
                case 0: run(Elem(r), false, 0 * id + (ALWAYS_EQ ? 0 : 0)); break;
                case 1: run(Elem(cv[i]), false, 0); break;
                case 2: run(Elem(v[i]), true, 0); break;  // prvalue mutable reference: moves
                case 3: run(Elem(r, EAlloc(id)), false, id); break;
                case 4: run(Elem(cv[i], EAlloc(id)), false, id); break;
                default: run(Elem(v[i], EAlloc(id)), true, id); break;
            }
        }
        else if constexpr (OP == OP_ELEM_CTOR)
        {
            usize how = verif_nondet_size(), i = verif_nondet_size();
            verif_assume(how < 6 && i < 2);
            how = verif_fork(how);
            i = verif_fork(i);
            const auto r = v[i];
            Elem a(r, EAlloc(ALWAYS_EQ ? 0 : 3));
            check_el(a, m.e[i], 200);
            const usize blocks0 = verif_live_blocks();
            const usize allocs0 = verif_alloc_count();
            const int other_id = ALWAYS_EQ ? 0 : 4;
            switch (how)
            {
                case 0:
                {
                    const u64 ga = gen_sum(Ref(a), SEQ);
                    Elem b(a);
                    check_el(b, m.e[i], 300);
                    check_el(a, m.e[i], 400);
                    verif_assert(gen_sum(Ref(a), SEQ) == ga, 262);  // a copy does not move from its source
                    verif_assert(verif_live_blocks() == blocks0 + 1, 901);
                    verif_assert(verif_live_objs() == vec_objs + 2 * trs(m.e[i]), 297);
                    ME mb = m.e[i];
                    scribble(Ref(b), mb, SEQ);
                    check_el(a, m.e[i], 500);
                    check_el(b, mb, 600);
                    break;
                }
                case 1:
                {
                    Elem b(std::move(a));
                    check_el(b, m.e[i], 300);
                    verif_assert(verif_alloc_count() == allocs0, 890);
                    verif_assert(b.get_allocator().id == (ALWAYS_EQ ? 0 : 3), 801);
                    verif_assert(verif_live_objs() == vec_objs + trs(m.e[i]), 297);
                    break;
                }
                case 2:
                {
                    const u64 ga = gen_sum(Ref(a), SEQ);
                    Elem b(a, EAlloc(other_id));
                    check_el(b, m.e[i], 300);
                    check_el(a, m.e[i], 400);
                    verif_assert(gen_sum(Ref(a), SEQ) == ga, 262);  // neither does the allocator-extended copy
                    verif_assert(b.get_allocator().id == other_id, 801);
                    ME mb = m.e[i];
                    scribble(Ref(a), m.e[i], SEQ);
                    check_el(b, mb, 500);
                    break;
                }
                case 3:
                {
                    Elem b(std::move(a), EAlloc(other_id));  // unequal allocator: element-wise transfer into own memory
                    check_el(b, m.e[i], 300);
                    verif_assert(b.get_allocator().id == other_id, 801);
                    break;
                }
                case 4:
                {
                    Elem b(std::move(a), EAlloc(ALWAYS_EQ ? 0 : 3));  // equal allocator: ownership transfer
                    check_el(b, m.e[i], 300);
                    verif_assert(verif_alloc_count() == allocs0, 890);
                    break;
                }
                default:
                {
                    Elem b(a);
                    Elem c(std::move(b));
                    b = c;  // a moved-from element can be assigned to
                    check_el(b, m.e[i], 300);
                    check_el(c, m.e[i], 400);
                    break;
                }
            }
        }
        else if constexpr (OP == OP_ELEM_ASSIGN)
        {
            usize how = verif_nondet_size(), i = verif_nondet_size(), eq = verif_nondet_size();
            verif_assume(how < (TWO_ASSIGN ? 7 : 5) && i < 2 && eq < 2);  // 5, 6: only in the C12 pool (-DTWO_ASSIGN=1)
            how = verif_fork(how);
            i = verif_fork(i);
            eq = verif_fork(eq);
            const usize j = 1 - i;
            const int ida = ALWAYS_EQ ? 0 : 3, idb = ALWAYS_EQ ? 0 : (eq ? 3 : 4);
            const auto ri = v[i];
            const auto rj = v[j];
            Elem a(ri, EAlloc(ida));
            Elem b(rj, EAlloc(idb));  // different varying sizes on the two sides (the solver picks smaller->larger and larger->smaller)
            check_el(a, m.e[i], 200);
            check_el(b, m.e[j], 300);
            if (how == 0)
            {
                b = a;
                check_el(b, m.e[i], 400);
                check_el(a, m.e[i], 500);
                verif_assert(b.get_allocator().id == (POCCA ? ida : idb), 801);
                verif_assert(verif_live_objs() == vec_objs + 2 * trs(m.e[i]), 297);
                ME mb = m.e[i];
                scribble(Ref(b), mb, SEQ);
                check_el(a, m.e[i], 600);
                inv<LT>(v, m, 700);
            }
            else if (how == 1)
            {
                b = std::move(a);
                check_el(b, m.e[i], 400);
                verif_assert(b.get_allocator().id == (POCMA ? ida : idb), 801);
                verif_assert(verif_live_objs() <= vec_objs + 2 * trs(m.e[i]), 297);
                inv<LT>(v, m, 700);
            }
            else if (how == 3 || how == 4)
            {
                // the target has been moved from (it holds no block) before it is assigned to
                Elem sink(std::move(b));
                check_el(sink, m.e[j], 400);
                if (how == 3)
                {
                    b = std::move(a);
                    verif_assert(b.get_allocator().id == (POCMA ? ida : idb), 801);
                }
                else
                {
                    b = a;
                    check_el(a, m.e[i], 600);
                    verif_assert(b.get_allocator().id == (POCCA ? ida : idb), 801);
                }
                check_el(b, m.e[i], 500);
                check_el(sink, m.e[j], 800);
                inv<LT>(v, m, 700);
            }
            else if (how == 5 || how == 6)
            {
                // two assignments in a row to the same target: the first may shrink the live size below what the block holds, the
                // second grows it again within the block (seeded change C12-move-assign-inplace-min-size)
                Elem c(rj, EAlloc(ida));
                ME mc = m.e[j];
                scribble(Ref(c), mc, SEQ);  // same sizes as the target's first contents, other values: stale bytes would show
                check_el(c, mc, 900);
                if (how == 5)
                {
                    b = std::move(a);
                    check_el(b, m.e[i], 400);
                    b = std::move(c);
                    verif_assert(b.get_allocator().id == (POCMA ? ida : idb), 801);
                }
                else
                {
                    b = a;
                    check_el(b, m.e[i], 400);
                    b = c;
                    check_el(c, mc, 600);
                    check_el(a, m.e[i], 900);
                    verif_assert(b.get_allocator().id == (POCCA ? ida : idb), 801);
                }
                check_el(b, mc, 500);
                inv<LT>(v, m, 700);
            }
            else
            {
                Elem& ra = a;
                a = ra;  // self copy assignment changes nothing
                check_el(a, m.e[i], 400);
                a = std::move(ra);
                check_el(a, m.e[i], 500);
            }
        }
        else if constexpr (OP == OP_ELEM_SWAP)
        {
            const auto r0 = v[0];
            const auto r1 = v[1];
            // unequal allocator instances only when the allocator propagates on swap (swapping unequal non-propagating allocators
            // is undefined by the allocator requirements)
            constexpr bool POCS = (AFLAGS & AF_POCS) != 0;
            const int ida = ALWAYS_EQ ? 0 : 3, idb = ALWAYS_EQ ? 0 : (POCS ? 4 : 3);
            Elem a(r0, EAlloc(ida)), b(r1, EAlloc(idb));
            const usize allocs0 = verif_alloc_count();
            swap(a, b);
            verif_assert(verif_alloc_count() == allocs0, 890);
            verif_assert(a.get_allocator().id == (POCS ? idb : ida) && b.get_allocator().id == (POCS ? ida : idb), 801);  // C08
            check_el(a, m.e[1], 200);
            check_el(b, m.e[0], 300);
            inv<LT>(v, m, 400);
        }
        else
        {
            usize how = verif_nondet_size();
            verif_assume(how < 4);
            how = verif_fork(how);
            for (usize f = 0; f < LT::N; ++f)
            {
                verif_assume(m.e[0].len[f] == m.e[1].len[f]);  // precondition: equal sizes
            }
            const auto r0 = v[0];
            Elem a(r0);
            const u64 g0 = gen_sum(Ref(a), SEQ);
            if (how == 0)
            {
                v[1] = a;  // element -> reference, copy
                m.e[1] = m.e[0];
                verif_assert(gen_sum(Ref(a), SEQ) == g0, 260);
                check_el(a, m.e[0], 200);
            }
            else if (how == 1)
            {
                v[1] = std::move(a);  // element -> reference, move
                m.e[1] = m.e[0];
                verif_assert(gen_sum(Ref(a), SEQ) == g0 + trs(m.e[0]), 261);
            }
            else if (how == 2)
            {
                const auto r1 = v[1];
                a = r1;  // reference -> element (copy of the values, no reallocation)
                check_el(a, m.e[1], 200);
            }
            else
            {
                const u64 g1 = gen_sum(v[1], SEQ);
                a = v[1];  // rvalue mutable reference -> element: moves
                check_el(a, m.e[1], 200);
                verif_assert(gen_sum(v[1], SEQ) == g1 + trs(m.e[1]), 261);
            }
            inv<LT>(v, m, 300);
            verif_assert(verif_live_objs() == vec_objs + trs(m.e[0]), 297);
        }
        verif_reach(1);
    }
    verif_assert(verif_live_objs() == 0, 9100);
    verif_assert(verif_live_blocks() == 0, 9101);
}
