// Generic, descriptor-driven reference model ("an ordinary sequence of tuples") and the glue that drives a real
// cntgs vector and the model side by side. Everything is derived from the cntgs parameter pack itself.
#pragma once
#include "verif.hpp"

#ifndef SMAX
#define SMAX 2  // largest span length explored in Mode B harnesses (verif_fork'ed, complete case split 0..SMAX)
#endif
#ifndef KMAX
#define KMAX 4  // model capacity (elements)
#endif

// ---- per-parameter info -----------------------------------------------------------------------------------------
enum : int
{
    K_PLAIN = 0,
    K_FIXED = 1,
    K_VARY = 2
};
template <class P>
struct PI
{
    static constexpr int kind = K_PLAIN;
    using V = P;
    static constexpr usize A = 1;
};
template <class T, usize AL>
struct PI<cntgs::AlignAs<T, AL>>
{
    static constexpr int kind = K_PLAIN;
    using V = T;
    static constexpr usize A = AL;
};
template <class T>
struct PI<cntgs::FixedSize<T>>
{
    static constexpr int kind = K_FIXED;
    using V = typename PI<T>::V;
    static constexpr usize A = PI<T>::A;
};
template <class T>
struct PI<cntgs::VaryingSize<T>>
{
    static constexpr int kind = K_VARY;
    using V = typename PI<T>::V;
    static constexpr usize A = PI<T>::A;
};

template <class... P>
struct L
{
    static constexpr usize N = sizeof...(P);
    template <usize I>
    using At = std::tuple_element_t<I, std::tuple<P...>>;
    static constexpr int kind[N] = {PI<P>::kind...};
    static constexpr usize align[N] = {PI<P>::A...};
    static constexpr usize vsize[N] = {sizeof(typename PI<P>::V)...};
    static constexpr usize NFIXED = (usize{} + ... + (PI<P>::kind == K_FIXED ? 1 : 0));
    static constexpr usize NVARY = (usize{} + ... + (PI<P>::kind == K_VARY ? 1 : 0));
    static constexpr usize SALIGN = (std::max)({PI<P>::A...});
    static constexpr bool is_count(usize j) { return j + 1 < N && kind[j + 1] == K_VARY; }
    template <class Alloc>
    using Vec = cntgs::BasicContiguousVector<cntgs::Options<cntgs::Allocator<Alloc>>, P...>;
    using Seq = std::make_index_sequence<N>;
};

// ---- model ------------------------------------------------------------------------------------------------------
template <usize N>
struct MElem
{
    u64 val[N][SMAX ? SMAX : 1];
    usize len[N];
};
template <usize N>
struct Model
{
    MElem<N> e[KMAX];
    usize n = 0;
    usize cap = 0;
    usize budget = 0;  // bytes of varying payload reserved
    usize fixed[N] = {};
    bool cap_exact = true;  // false after copy/move: the property leaves the capacity of the target open
};

template <class LT>
usize payload_bytes(const MElem<LT::N>& e)
{
    usize b = 0;
    for (usize j = 0; j < LT::N; ++j)
    {
        if (LT::kind[j] == K_VARY)
        {
            b += e.len[j] * LT::vsize[j];
        }
    }
    return b;
}
template <class LT>
usize live_payload(const Model<LT::N>& m)
{
    usize b = 0;
    for (usize i = 0; i < KMAX; ++i)
    {
        if (i < m.n)
        {
            b += payload_bytes<LT>(m.e[i]);
        }
    }
    return b;
}

// symbolic element: span lengths are case-split (verif_fork), values stay symbolic
template <class LT, class... P>
MElem<LT::N> draw_elem_impl(const Model<LT::N>& m, usize smax, L<P...>)
{
    MElem<LT::N> e{};
    for (usize j = 0; j < LT::N; ++j)
    {
        if (LT::kind[j] == K_FIXED)
        {
            e.len[j] = m.fixed[j];
        }
        else if (LT::kind[j] == K_VARY)
        {
            usize n = verif_nondet_size();
            verif_assume(n <= smax);
            e.len[j] = verif_fork(n);
        }
        else
        {
            e.len[j] = 1;
        }
    }
    const u64 masks[LT::N] = {VMASK<typename PI<P>::V>...};
    for (usize j = 0; j < LT::N; ++j)
    {
        for (usize t = 0; t < (SMAX ? SMAX : 1); ++t)
        {
            if (t < e.len[j])
            {
                e.val[j][t] = LT::is_count(j) ? e.len[j + 1] : (verif_nondet_u64() & masks[j]);
            }
        }
    }
    return e;
}
template <class LT>
MElem<LT::N> draw_elem(const Model<LT::N>& m, usize smax = SMAX)
{
    return draw_elem_impl<LT>(m, smax, LT{});
}

// ---- argument construction ---------------------------------------------------------------------------------------
template <class V>
struct SpanSrc  // contiguous source with data()/size(): takes the library's memcpy fast path when V allows it
{
    std::array<V, (SMAX ? SMAX : 1)> a;
    usize n;
    const V* begin() const { return a.data(); }
    const V* end() const { return a.data() + n; }
    const V* data() const { return a.data(); }
    usize size() const { return n; }
};
template <class V, usize... T>
std::array<V, sizeof...(T)> mk_array(const u64* vals, std::index_sequence<T...>)
{
    return {mk<V>(vals[T])...};
}
template <class P, usize N>
auto make_arg(const MElem<N>& e, usize j)
{
    using V = typename PI<P>::V;
    if constexpr (PI<P>::kind == K_PLAIN)
    {
        return mk<V>(e.val[j][0]);
    }
    else
    {
        return SpanSrc<V>{mk_array<V>(e.val[j], std::make_index_sequence<(SMAX ? SMAX : 1)>{}), e.len[j]};
    }
}
template <class Vec, class... P, usize... I>
void emplace_elem(Vec& v, const MElem<sizeof...(P)>& e, L<P...>, std::index_sequence<I...>)
{
    auto args = std::tuple{make_arg<P>(e, I)...};
    v.emplace_back(std::get<I>(args)...);
}
template <class LT, class Vec>
void emplace_elem(Vec& v, const MElem<LT::N>& e)
{
    emplace_elem(v, e, LT{}, typename LT::Seq{});
}

template <class LT, class Vec, class Alloc>
Vec make_vec(usize cap, usize bytes, const usize* fixed, const Alloc& a)
{
    std::array<usize, LT::NFIXED> fs{};
    usize k = 0;
    for (usize j = 0; j < LT::N; ++j)
    {
        if (LT::kind[j] == K_FIXED)
        {
            fs[k++] = fixed[j];
        }
    }
    if constexpr (LT::NVARY != 0 && LT::NFIXED != 0)
    {
        return Vec(cap, bytes, fs, a);
    }
    else if constexpr (LT::NVARY != 0)
    {
        return Vec(cap, bytes, a);
    }
    else if constexpr (LT::NFIXED != 0)
    {
        return Vec(cap, fs, a);
    }
    else
    {
        return Vec(cap, a);
    }
}

// ---- observation: compare every public read path with the model ---------------------------------------------------
template <class X>
inline constexpr bool IS_SPAN = false;
template <class X>
inline constexpr bool IS_SPAN<cntgs::Span<X>> = true;

template <class X>
std::uintptr_t field_begin(const X& x)
{
    if constexpr (IS_SPAN<X>)
    {
        return addr_of(x.data());
    }
    else
    {
        return addr_of(&x);
    }
}
template <class X>
std::uintptr_t field_end(const X& x)
{
    if constexpr (IS_SPAN<X>)
    {
        return addr_of(x.data() + x.size());
    }
    else
    {
        return addr_of(&x) + sizeof(X);
    }
}

template <usize I, class X, usize N>
void check_field(const X& x, const MElem<N>& e, int id, usize align)
{
    if constexpr (IS_SPAN<X>)
    {
        verif_assert(addr_of(x.data()) % align == 0, (id / 100) * 100 + 96);  // C03
        verif_assert(x.size() == e.len[I], id + 2 * static_cast<int>(I));
        for (usize t = 0; t < (SMAX ? SMAX : 1); ++t)
        {
            if (t < e.len[I] && t < x.size())
            {
                verif_observe(val(x[t]));
                verif_assert(val(x[t]) == e.val[I][t], id + 2 * static_cast<int>(I) + 1);
            }
        }
    }
    else
    {
        verif_assert(addr_of(&x) % align == 0, (id / 100) * 100 + 96);  // C03
        verif_observe(val(x));
        verif_assert(val(x) == e.val[I][0], id + 2 * static_cast<int>(I) + 1);
    }
}
template <class LT, class Ref, usize... I>
void check_elem_impl(const Ref& r, const MElem<LT::N>& e, int id, std::index_sequence<I...>)
{
    (check_field<I>(cntgs::get<I>(r), e, id, LT::align[I]), ...);
    // C04: fields in parameter order inside [data_begin, data_end), no overlap
    std::uintptr_t lo[LT::N] = {field_begin(cntgs::get<I>(r))...};
    std::uintptr_t hi[LT::N] = {field_end(cntgs::get<I>(r))...};
    std::uintptr_t cur = addr_of(r.data_begin());
    bool ordered = true;
    for (usize j = 0; j < LT::N; ++j)
    {
        ordered = ordered && lo[j] >= cur && hi[j] >= lo[j];
        cur = hi[j];
    }
    verif_assert(ordered && cur == addr_of(r.data_end()), (id / 100) * 100 + 98);
}
template <class LT, class Ref>
void check_elem(const Ref& r, const MElem<LT::N>& e, int id)
{
    check_elem_impl<LT>(r, e, id, typename LT::Seq{});
}

// number of Tr objects the model holds (C06: live objects are exactly the logically held ones)
template <class LT, class... P>
usize tr_count_impl(const Model<LT::N>& m, L<P...>)
{
    const bool is_tr[LT::N] = {std::is_same_v<typename PI<P>::V, Tr>...};
    usize n = 0;
    for (usize i = 0; i < KMAX; ++i)
    {
        if (i < m.n)
        {
            for (usize j = 0; j < LT::N; ++j)
            {
                if (is_tr[j])
                {
                    n += m.e[i].len[j];
                }
            }
        }
    }
    return n;
}
template <class LT>
usize tr_count(const Model<LT::N>& m)
{
    return tr_count_impl<LT>(m, LT{});
}

template <class LT, class Vec, usize... I>
void check_fixed_sizes(const Vec& v, const Model<LT::N>& m, int id, std::index_sequence<I...>)
{
    // I ranges over the FIXED parameters in order
    usize idx[LT::NFIXED ? LT::NFIXED : 1] = {};
    usize k = 0;
    for (usize j = 0; j < LT::N; ++j)
    {
        if (LT::kind[j] == K_FIXED)
        {
            idx[k++] = j;
        }
    }
    (verif_assert(v.template get_fixed_size<I>() == m.fixed[idx[I]], id), ...);
}

// Inv(v, m): ids base+1.. ; base should be a multiple of 100
template <class LT, class Vec>
void inv(Vec& v, const Model<LT::N>& m, int base)
{
    const Vec& cv = v;
    verif_observe(cv.size());
    verif_observe(cv.capacity());
    verif_observe(static_cast<u64>(cv.data_end() - cv.data_begin()));
    verif_assert(cv.size() == m.n, base + 1);
    verif_assert(cv.empty() == (m.n == 0), base + 2);
    verif_assert(m.cap_exact ? cv.capacity() == m.cap : cv.capacity() >= m.n, base + 3);
    check_fixed_sizes<LT>(cv, m, base + 4, std::make_index_sequence<LT::NFIXED>{});
    std::uintptr_t prev_end = addr_of(cv.data_begin());
    for (usize i = 0; i < KMAX; ++i)
    {
        if (i < m.n && i < cv.size())
        {
            check_elem<LT>(v[i], m.e[i], base + 10);
            check_elem<LT>(cv[i], m.e[i], base + 40);
            // C04: elements in index order inside [data_begin(), data_end()), no overlap; iterator.data() == reference.data_begin()
            const auto r = cv[i];
            verif_assert(addr_of(r.data_begin()) >= prev_end && addr_of(r.data_end()) <= addr_of(cv.data_end()), base + 98);
            // C05: each element starts at the lowest address aligned to the largest parameter alignment after the previous one
            verif_assert(addr_of(r.data_begin()) == ((prev_end + LT::SALIGN - 1) & ~(static_cast<std::uintptr_t>(LT::SALIGN) - 1)), base + 99);
            verif_assert(addr_of((cv.begin() + i).data()) == addr_of(r.data_begin()), base + 98);
            prev_end = addr_of(r.data_end());
        }
    }
    if (m.n > 0 && cv.size() > 0)
    {
        check_elem<LT>(cv.front(), m.e[0], base + 70);
        check_elem<LT>(v.back(), m.e[m.n - 1], base + 70);
    }
    usize i = 0;
    for (auto it = cv.begin(); it != cv.end() && i < KMAX; ++it, ++i)
    {
        if (i < m.n)
        {
            check_elem<LT>(*it, m.e[i], base + 40);
        }
    }
    verif_assert(i == m.n || i == KMAX, base + 5);
    verif_assert(static_cast<usize>(cv.end() - cv.begin()) == m.n, base + 6);
}

// discriminator of known finding KF-erase-overlap (DESIGN.md section 7): erase on a varying-size list of non-trivially
// relocatable types where an element behind the erased ones is larger than the bytes that were erased
template <class... P>
constexpr bool all_trivial(L<P...>)
{
    return (std::is_trivially_copyable_v<typename PI<P>::V> && ...);
}
template <class LT>
bool erase_overlaps(const Model<LT::N>& m, usize first, usize last)
{
    if (LT::NVARY == 0 || all_trivial(LT{}) || first == last)
    {
        return false;
    }
    usize erased = 0, worst = 0;
    for (usize i = 0; i < KMAX; ++i)
    {
        if (i >= first && i < last)
        {
            erased += payload_bytes<LT>(m.e[i]);
        }
        else if (i >= last && i < m.n && payload_bytes<LT>(m.e[i]) > worst)
        {
            worst = payload_bytes<LT>(m.e[i]);
        }
    }
    return worst > erased;
}

// ---- model-side operations ---------------------------------------------------------------------------------------
template <usize N>
void m_erase(Model<N>& m, usize first, usize last)
{
    const usize d = last - first;
    for (usize i = first; i + d < KMAX; ++i)
    {
        if (i + d < m.n)
        {
            m.e[i] = m.e[i + d];
        }
    }
    m.n -= d;
}
