// Common harness vocabulary: intrinsics implemented by llsym (symbolically) and by replay_rt.cpp (natively),
// the instrumented allocator, and the instrumented value types. See DESIGN.md section 2.
#pragma once
#include <cntgs/contiguous.hpp>

#include <array>
#include <cstddef>
#include <cstdint>
#include <tuple>
#include <type_traits>
#include <utility>

using u8 = std::uint8_t;
using u16 = std::uint16_t;
using u32 = std::uint32_t;
using u64 = std::uint64_t;
using i32 = std::int32_t;
using usize = std::size_t;

extern "C"
{
    usize verif_nondet_size();
    u64 verif_nondet_u64();
    u32 verif_nondet_u32();
    u16 verif_nondet_u16();
    u8 verif_nondet_u8();
    void verif_assume(bool c);
    void verif_assert(bool c, int id);
    usize verif_fork(usize x);
    void* verif_alloc(usize bytes, usize align, int alloc_id);
    void verif_free(void* p, usize bytes, usize align, int alloc_id);
    bool verif_alloc_fail();
    void verif_obj(const void* self, int event, const void* other, usize size);
    void verif_freeze();
    void verif_thaw();
    void verif_freeze_allocs();
    void verif_thaw_obj(const void* p);
    void verif_reach(int id);
    void verif_observe(u64 x);
    usize verif_live_blocks();
    usize verif_live_blocks_of(usize align);
    usize verif_alloc_count();
    usize verif_bytes_requested();
    usize verif_block_size(const void* base);
    bool verif_in_live_block(const void* p, usize n);
    usize verif_live_objs();
}

enum : int
{
    OBJ_CTOR = 0,
    OBJ_COPY = 1,
    OBJ_MOVE = 2,
    OBJ_DTOR = 3,
    OBJ_USE = 4,
    OBJ_BEGIN_WRITE = 5,
    OBJ_END_WRITE = 6
};

// ---------------------------------------------------------------------------------------------------------------
// Allocator. FLAGS: bit0 POCCA, bit1 POCMA, bit2 POCS, bit3 is_always_equal, bit4 may throw (verif_alloc_fail),
// bit5 select_on_container_copy_construction returns id+100
enum : unsigned
{
    AF_POCCA = 1,
    AF_POCMA = 2,
    AF_POCS = 4,
    AF_ALWAYS_EQUAL = 8,
    AF_THROWS = 16,
    AF_SOCCC = 32
};

struct OOM
{
};
// C17: at most one allocation fails per run (the failing one is chosen by the solver); afterwards allocations succeed
inline int g_alloc_failures = 0;

template <class T, unsigned FLAGS = AF_ALWAYS_EQUAL>
struct SAlloc
{
    using value_type = T;
    using propagate_on_container_copy_assignment = std::bool_constant<(FLAGS & AF_POCCA) != 0>;
    using propagate_on_container_move_assignment = std::bool_constant<(FLAGS & AF_POCMA) != 0>;
    using propagate_on_container_swap = std::bool_constant<(FLAGS & AF_POCS) != 0>;
    using is_always_equal = std::bool_constant<(FLAGS & AF_ALWAYS_EQUAL) != 0>;
    template <class U>
    struct rebind
    {
        using other = SAlloc<U, FLAGS>;
    };

    int id = 0;

    SAlloc() = default;
    explicit SAlloc(int i) noexcept : id((FLAGS & AF_ALWAYS_EQUAL) ? 0 : i) {}
    template <class U>
    SAlloc(const SAlloc<U, FLAGS>& o) noexcept : id(o.id)
    {
    }

    T* allocate(usize n)
    {
        if constexpr ((FLAGS & AF_THROWS) != 0)
        {
#if defined(__cpp_exceptions) || defined(__EXCEPTIONS)
            if (g_alloc_failures == 0 && verif_alloc_fail())
            {
                ++g_alloc_failures;
                throw OOM{};
            }
#endif
        }
        return static_cast<T*>(verif_alloc(n * sizeof(T), alignof(T), id));
    }
    void deallocate(T* p, usize n) noexcept { verif_free(p, n * sizeof(T), alignof(T), id); }

    SAlloc select_on_container_copy_construction() const noexcept
    {
        if constexpr ((FLAGS & AF_SOCCC) != 0 && (FLAGS & AF_ALWAYS_EQUAL) == 0)
        {
            return SAlloc(id + 100);
        }
        else
        {
            return *this;
        }
    }

    template <class U>
    friend bool operator==(const SAlloc& a, const SAlloc<U, FLAGS>& b) noexcept
    {
        return a.id == b.id;
    }
    template <class U>
    friend bool operator!=(const SAlloc& a, const SAlloc<U, FLAGS>& b) noexcept
    {
        return a.id != b.id;
    }
};

// ---------------------------------------------------------------------------------------------------------------
// Tr: non-trivial value type with a self pointer (detects bitwise relocation / clobbering) and lifetime ledger calls.
// TR_THROWS: the copy constructor of Tr may throw (fault schedule for operations that copy stored objects): the k-th copy after
// g_tr_copy_countdown was set to k throws TrThrow before the new object exists
#if defined(TR_THROWS) && defined(__cpp_exceptions)
struct TrThrow
{
};
inline int g_tr_copy_countdown = 0;
#define TR_COPY_NOEXCEPT noexcept(false)
#else
#define TR_COPY_NOEXCEPT noexcept
#endif

struct Tr
{
    u32 v;
    u32 gen;  // number of times this object was moved from
    const Tr* self;

    explicit Tr(u32 x) noexcept
    {
        verif_obj(this, OBJ_CTOR, nullptr, sizeof(Tr));
        verif_obj(this, OBJ_BEGIN_WRITE, nullptr, 0);
        v = x;
        gen = 0;
        self = this;
        verif_obj(this, OBJ_END_WRITE, nullptr, 0);
    }
    Tr(const Tr& o) TR_COPY_NOEXCEPT
    {
#if defined(TR_THROWS) && defined(__cpp_exceptions)
        if (g_tr_copy_countdown > 0 && --g_tr_copy_countdown == 0)
        {
            throw TrThrow{};
        }
#endif
        verif_assert(o.self == &o, 9001);
        verif_obj(this, OBJ_COPY, &o, sizeof(Tr));
        verif_obj(this, OBJ_BEGIN_WRITE, nullptr, 0);
        v = o.v;
        gen = 0;
        self = this;
        verif_obj(this, OBJ_END_WRITE, nullptr, 0);
    }
    Tr(Tr&& o) noexcept
    {
        verif_assert(o.self == &o, 9002);
        verif_obj(this, OBJ_MOVE, &o, sizeof(Tr));
        verif_obj(this, OBJ_BEGIN_WRITE, nullptr, 0);
        v = o.v;
        gen = 0;
        self = this;
        o.gen = o.gen + 1;
        verif_obj(this, OBJ_END_WRITE, nullptr, 0);
    }
    Tr& operator=(const Tr& o) noexcept
    {
        verif_obj(this, OBJ_USE, nullptr, sizeof(Tr));
        verif_obj(&o, OBJ_USE, nullptr, sizeof(Tr));
        verif_assert(self == this, 9004);
        verif_assert(o.self == &o, 9005);
        verif_obj(this, OBJ_BEGIN_WRITE, nullptr, 0);
        v = o.v;
        verif_obj(this, OBJ_END_WRITE, nullptr, 0);
        return *this;
    }
    Tr& operator=(Tr&& o) noexcept
    {
        verif_obj(this, OBJ_USE, nullptr, sizeof(Tr));
        verif_obj(&o, OBJ_USE, nullptr, sizeof(Tr));
        verif_assert(self == this, 9006);
        verif_assert(o.self == &o, 9007);
        verif_obj(this, OBJ_BEGIN_WRITE, nullptr, 0);
        v = o.v;
        if (&o != this)
        {
            o.gen = o.gen + 1;
        }
        verif_obj(this, OBJ_END_WRITE, nullptr, 0);
        return *this;
    }
    ~Tr() noexcept
    {
        verif_assert(self == this, 9003);
        verif_obj(this, OBJ_DTOR, nullptr, sizeof(Tr));
        verif_obj(this, OBJ_BEGIN_WRITE, nullptr, 0);
        self = nullptr;
        verif_obj(this, OBJ_END_WRITE, nullptr, 0);
    }
    friend bool operator==(const Tr& a, const Tr& b) noexcept { return a.v == b.v; }
    friend bool operator!=(const Tr& a, const Tr& b) noexcept { return a.v != b.v; }
    friend bool operator<(const Tr& a, const Tr& b) noexcept { return a.v < b.v; }
    friend void swap(Tr& a, Tr& b) noexcept
    {
        verif_obj(&a, OBJ_USE, nullptr, sizeof(Tr));
        verif_obj(&b, OBJ_USE, nullptr, sizeof(Tr));
        verif_assert(a.self == &a, 9008);
        verif_assert(b.self == &b, 9009);
        verif_obj(&a, OBJ_BEGIN_WRITE, nullptr, 0);
        const u32 t = a.v;
        a.v = b.v;
        b.v = t;
        verif_obj(&a, OBJ_END_WRITE, nullptr, 0);
    }
};

// Cm: trivially copyable class type with user-defined == and < (generic comparison path, no memcmp)
struct Cm
{
    u8 v;
    friend bool operator==(const Cm& a, const Cm& b) noexcept { return a.v == b.v; }
    friend bool operator!=(const Cm& a, const Cm& b) noexcept { return a.v != b.v; }
    friend bool operator<(const Cm& a, const Cm& b) noexcept { return a.v < b.v; }
};

// Sp: address-sensitive value that is trivially destructible but NOT trivially copy/move constructible (an inline buffer with a pointer
// to itself, an intrusive node): relocation must go through its constructors even though nothing has to be destroyed afterwards
struct Sp
{
    u32 v;
    const Sp* self;
    explicit Sp(u32 x) noexcept : v(x), self(this) {}
    Sp(const Sp& o) noexcept : v(o.v), self(this) { verif_assert(o.self == &o, 9011); }
    Sp(Sp&& o) noexcept : v(o.v), self(this) { verif_assert(o.self == &o, 9012); }
    Sp& operator=(const Sp& o) noexcept
    {
        verif_assert(self == this && o.self == &o, 9013);
        v = o.v;
        return *this;
    }
    friend bool operator==(const Sp& a, const Sp& b) noexcept { return a.v == b.v; }
    friend bool operator!=(const Sp& a, const Sp& b) noexcept { return a.v != b.v; }
    friend bool operator<(const Sp& a, const Sp& b) noexcept { return a.v < b.v; }
};

// Am: copy assignment is trivial (defaulted), move assignment is user-provided and marks its source: the two assignment kinds differ
// in triviality, so a library that coalesces trivially assignable fields must decide per kind
struct Am
{
    u32 v;
    u32 gen;  // number of times this object was move-assigned from
    explicit Am(u32 x) noexcept : v(x), gen(0) {}
    Am(const Am&) = default;
    Am& operator=(const Am&) = default;
    Am& operator=(Am&& o) noexcept
    {
        v = o.v;
        if (&o != this)
        {
            o.gen = o.gen + 1;
        }
        return *this;
    }
    friend bool operator==(const Am& a, const Am& b) noexcept { return a.v == b.v; }
    friend bool operator!=(const Am& a, const Am& b) noexcept { return a.v != b.v; }
    friend bool operator<(const Am& a, const Am& b) noexcept { return a.v < b.v; }
};

// Ce: trivially copyable, padding-free class whose == is NOT bytewise identity (the low bit is ignored): a representation-based
// shortcut (memcmp, has_unique_object_representations) gives a different answer than the value type's own operators
struct Ce
{
    u8 v;
    friend bool operator==(const Ce& a, const Ce& b) noexcept { return (a.v >> 1) == (b.v >> 1); }
    friend bool operator!=(const Ce& a, const Ce& b) noexcept { return (a.v >> 1) != (b.v >> 1); }
    friend bool operator<(const Ce& a, const Ce& b) noexcept { return (a.v >> 1) < (b.v >> 1); }
};

// Bs<N>: trivially copyable N-byte value type of alignment 1 (layout family: object sizes that are not powers of two)
template <usize NB>
struct Bs
{
    unsigned char b[NB];
};

// value <-> u64 code used by the reference model
template <class T>
inline T mk(u64 x)
{
    if constexpr (std::is_same_v<T, Tr>)
    {
        return Tr(static_cast<u32>(x));
    }
    else if constexpr (std::is_same_v<T, Sp>)
    {
        return Sp(static_cast<u32>(x));
    }
    else if constexpr (std::is_same_v<T, Am>)
    {
        return Am(static_cast<u32>(x));
    }
    else if constexpr (std::is_same_v<T, Cm>)
    {
        return Cm{static_cast<u8>(x)};
    }
    else if constexpr (std::is_same_v<T, Ce>)
    {
        return Ce{static_cast<u8>(x)};
    }
    else if constexpr (std::is_floating_point_v<T>)
    {
        // the code of a floating-point value is its bit pattern
        T f;
        if constexpr (sizeof(T) == 4)
        {
            const u32 b = static_cast<u32>(x);
            __builtin_memcpy(&f, &b, 4);
        }
        else
        {
            __builtin_memcpy(&f, &x, 8);
        }
        return f;
    }
    else
    {
        return static_cast<T>(x);
    }
}
template <class T>
inline u64 val(const T& x)
{
    if constexpr (std::is_same_v<T, Tr>)
    {
        return x.v;
    }
    else if constexpr (std::is_same_v<T, Sp>)
    {
        verif_assert(x.self == &x, 9010);  // the stored object is where its constructor put it
        return x.v;
    }
    else if constexpr (std::is_same_v<T, Cm> || std::is_same_v<T, Ce> || std::is_same_v<T, Am>)
    {
        return x.v;
    }
    else if constexpr (std::is_floating_point_v<T>)
    {
        u64 r = 0;
        __builtin_memcpy(&r, &x, sizeof(T));
        return r;
    }
    else
    {
        return static_cast<u64>(x);
    }
}
// equality / order of two value codes under the value type's own == and <
template <class T>
inline bool code_eq(u64 a, u64 b)
{
    if constexpr (std::is_floating_point_v<T> || std::is_same_v<T, Ce>)
    {
        return mk<T>(a) == mk<T>(b);
    }
    else
    {
        return a == b;
    }
}
template <class T>
inline constexpr u64 VMASK = (std::is_same_v<T, Tr> || std::is_same_v<T, Sp> || std::is_same_v<T, Am>) ? 0xffffffffull
                             : (std::is_same_v<T, Cm> || std::is_same_v<T, Ce>) ? 0xffull
                             : sizeof(T) >= 8         ? ~0ull
                                                      : ((1ull << (8 * (sizeof(T) & 7))) - 1);

inline std::uintptr_t addr_of(const void* p) { return reinterpret_cast<std::uintptr_t>(p); }
