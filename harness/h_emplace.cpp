// C15: emplace_back stores T(source item) whatever form the source takes.
// One parameter list (FixedSize<T> or size_t + VaryingSize<T>), one element; the source items are symbolic; SRC/DST types and
// the source form are compile-time parameters. Checked: stored[i] == static_cast<T>(src[i]) bit for bit, lvalue sources
// unchanged, rvalue ranges / move_iterators moved from exactly once per item, exactly `length` items consumed.
#include "model.hpp"

#include <iterator>

#ifndef PAIR
#define PAIR 1
#endif
#ifndef FORM
#define FORM 1
#endif
#ifndef VARYING
#define VARYING 0
#endif
#ifndef LMAX
#define LMAX 2
#endif

// ---- type pairs ------------------------------------------------------------------------------------------------------
enum class Color : u32
{
    RED = 0,
    BLUE = 7
};
enum E8 : u8  // unscoped enum with a 1-byte underlying type: converts implicitly to integral types and to bool
{
    E8_ZERO = 0,
    E8_ONE = 1,
    E8_TWO = 2,
    E8_BIG = 250
};
struct ToColor  // class with a conversion operator
{
    u32 raw;
    operator Color() const noexcept { return static_cast<Color>(raw ^ 1u); }
};
struct W  // class with a converting constructor, same size as its source, trivially copyable
{
    u32 v;
    W() = default;
    W(i32 x) noexcept : v(2u * static_cast<u32>(x) + 1u) {}
};
struct Ms  // movable source with a move counter
{
    u32 v;
    u32 moved;
};
struct Tm  // non-trivial target constructible from Ms by copy or by move
{
    u32 v;
    u32 how;  // 1 copied from Ms, 2 moved from Ms
    Tm(const Ms& s) noexcept : v(s.v), how(1) {}
    Tm(Ms&& s) noexcept : v(s.v), how(2) { s.moved = s.moved + 1; }
    Tm(const Tm&) = default;
    ~Tm() noexcept {}
};

struct Tn  // like Tm, but its converting move constructor is not noexcept (a container must still move from rvalue ranges)
{
    u32 v;
    u32 how;
    Tn(const Ms& s) : v(s.v), how(1) {}
    Tn(Ms&& s) : v(s.v), how(2) { s.moved = s.moved + 1; }
    Tn(const Tn&) = default;
    ~Tn() {}
};

struct Tt  // like Tm, but trivially copyable and trivially destructible (fast paths keyed on the stored type alone must still convert)
{
    u32 v;
    u32 how;
    Tt(const Ms& s) noexcept : v(s.v), how(1) {}
    Tt(Ms&& s) noexcept : v(s.v), how(2) { s.moved = s.moved + 1; }
};

#if PAIR == 1
using SRC = u32;
using DST = u32;
#elif PAIR == 2
using SRC = i32;
using DST = u32;
#elif PAIR == 3
using SRC = u8;
using DST = bool;
#elif PAIR == 4
using SRC = bool;
using DST = u8;
#elif PAIR == 5
using SRC = ToColor;
using DST = Color;
#elif PAIR == 6
using SRC = i32;
using DST = float;
#elif PAIR == 7
using SRC = u64;
using DST = double;
#elif PAIR == 8
using SRC = i32;
using DST = W;
#elif PAIR == 9
using SRC = Ms;
using DST = Tm;
#elif PAIR == 10
using SRC = u16;
using DST = i32;
#elif PAIR == 11
using SRC = i32;
using DST = u8;  // narrowing
#elif PAIR == 13
using SRC = Ms;
using DST = Tn;
#elif PAIR == 14
using SRC = Ms;
using DST = Tt;
#elif PAIR == 15
using SRC = E8;
using DST = bool;
#elif PAIR == 16
using SRC = E8;
using DST = u8;
#else
using SRC = float;
using DST = float;
#endif

template <class SRC_ = SRC>
static SRC_ make_src()
{
    using SRC = SRC_;
    if constexpr (std::is_same_v<SRC, ToColor>)
    {
        return ToColor{verif_nondet_u32()};
    }
    else if constexpr (std::is_same_v<SRC, Ms>)
    {
        return Ms{verif_nondet_u32(), 0};
    }
    else if constexpr (std::is_same_v<SRC, bool>)
    {
        return (verif_nondet_u8() & 1) != 0;
    }
    else if constexpr (std::is_same_v<SRC, float>)
    {
        const u32 bits = verif_nondet_u32();
        float f;
        __builtin_memcpy(&f, &bits, 4);
        return f;
    }
    else
    {
        return static_cast<SRC>(verif_nondet_u64());
    }
}
template <class T>
u64 bits_of(const T& x)
{
    u64 r = 0;
    if constexpr (std::is_same_v<T, bool>)
    {
        unsigned char b;
        __builtin_memcpy(&b, &x, 1);
        r = b;
    }
    else if constexpr (std::is_same_v<T, Tm> || std::is_same_v<T, Tn> || std::is_same_v<T, Tt> || std::is_same_v<T, Ms>)
    {
        r = x.v;
    }
    else
    {
        __builtin_memcpy(&r, &x, sizeof(T));
    }
    return r;
}
template <class DST_ = DST, class SRC_ = SRC>
static DST_ convert(const SRC_& s)
{
    using DST = DST_;
    if constexpr (std::is_same_v<DST, Tm> || std::is_same_v<DST, Tn> || std::is_same_v<DST, Tt>)
    {
        return DST(s);
    }
    else
    {
        return static_cast<DST>(s);
    }
}

template <class X>
u32 field_v(const X&) { return 0; }
inline u32 field_v(const Ms& x) { return x.v; }
template <class X>
u32 field_moved(const X&) { return 0; }
inline u32 field_moved(const Ms& x) { return x.moved; }
template <class X>
u32 field_how(const X&) { return 0; }
inline u32 field_how(const Tm& x) { return x.how; }
inline u32 field_how(const Tn& x) { return x.how; }
inline u32 field_how(const Tt& x) { return x.how; }
template <class X>
void reset_moved(X&) {}
inline void reset_moved(Ms& x) { x.moved = 0; }

// ---- source forms ----------------------------------------------------------------------------------------------------
static usize g_deref, g_incr;

struct Contig  // contiguous container: data()/size()/begin()/end()
{
    SRC a[LMAX];
    usize n;
    SRC* begin() { return a; }
    SRC* end() { return a + n; }
    const SRC* begin() const { return a; }
    const SRC* end() const { return a + n; }
    SRC* data() { return a; }
    const SRC* data() const { return a; }
    usize size() const { return n; }
};
struct Node
{
    SRC v;
    Node* next;
};
struct FwdIt  // forward-only, counts dereferences and increments
{
    using iterator_category = std::forward_iterator_tag;
    using value_type = SRC;
    using difference_type = std::ptrdiff_t;
    using pointer = SRC*;
    using reference = SRC&;
    Node* p;
    reference operator*() const
    {
        ++g_deref;
        return p->v;
    }
    FwdIt& operator++()
    {
        ++g_incr;
        p = p->next;
        return *this;
    }
    FwdIt operator++(int)
    {
        FwdIt c = *this;
        ++*this;
        return c;
    }
    bool operator==(const FwdIt& o) const { return p == o.p; }
    bool operator!=(const FwdIt& o) const { return p != o.p; }
};
struct NodeRange
{
    Node nodes[LMAX + 1];
    usize n;
    FwdIt begin() { return FwdIt{n ? &nodes[0] : nullptr}; }
    FwdIt end() { return FwdIt{nullptr}; }
};
struct GenIt  // generated range: computes its values, counts how many were produced
{
    using iterator_category = std::input_iterator_tag;
    using value_type = SRC;
    using difference_type = std::ptrdiff_t;
    using pointer = const SRC*;
    using reference = SRC;
    const SRC* base;
    usize i;
    SRC operator*() const
    {
        ++g_deref;
        return base[i];
    }
    GenIt& operator++()
    {
        ++g_incr;
        ++i;
        return *this;
    }
    GenIt operator++(int)
    {
        GenIt c = *this;
        ++*this;
        return c;
    }
    bool operator==(const GenIt& o) const { return i == o.i; }
    bool operator!=(const GenIt& o) const { return i != o.i; }
};
struct GenRange
{
    const SRC* base;
    usize n;
    GenIt begin() const { return GenIt{base, 0}; }
    GenIt end() const { return GenIt{base, n}; }
};

struct Seg  // three items that are not adjacent in memory
{
    SRC a;
    unsigned char gap0[24];
    SRC b;
    unsigned char gap1[40];
    SRC c;
    const SRC& at(std::ptrdiff_t k) const { return k == 0 ? a : (k == 1 ? b : c); }
};
struct SegIt  // random access, lvalue references, operator-> yields a pointer - and still not contiguous (like std::deque's iterator)
{
    using iterator_category = std::random_access_iterator_tag;
    using value_type = SRC;
    using difference_type = std::ptrdiff_t;
    using pointer = const SRC*;
    using reference = const SRC&;
    const Seg* s;
    difference_type k;
    reference operator*() const { return s->at(k); }
    pointer operator->() const { return &s->at(k); }
    reference operator[](difference_type d) const { return s->at(k + d); }
    SegIt& operator++() { ++k; return *this; }
    SegIt operator++(int) { SegIt c = *this; ++k; return c; }
    SegIt& operator--() { --k; return *this; }
    SegIt operator--(int) { SegIt c = *this; --k; return c; }
    SegIt& operator+=(difference_type d) { k += d; return *this; }
    SegIt& operator-=(difference_type d) { k -= d; return *this; }
    friend SegIt operator+(SegIt i, difference_type d) { i.k += d; return i; }
    friend SegIt operator+(difference_type d, SegIt i) { i.k += d; return i; }
    friend SegIt operator-(SegIt i, difference_type d) { i.k -= d; return i; }
    friend difference_type operator-(const SegIt& x, const SegIt& y) { return x.k - y.k; }
    bool operator==(const SegIt& o) const { return k == o.k; }
    bool operator!=(const SegIt& o) const { return k != o.k; }
    bool operator<(const SegIt& o) const { return k < o.k; }
    bool operator>(const SegIt& o) const { return k > o.k; }
    bool operator<=(const SegIt& o) const { return k <= o.k; }
    bool operator>=(const SegIt& o) const { return k >= o.k; }
};

#if VARYING == 2  // over-aligned span behind an 8-byte count (run-time padding in front of the span, also for length 0) + a trailing field
using LT = L<usize, cntgs::VaryingSize<cntgs::AlignAs<DST, 16>>, u16>;
constexpr usize FIELD = 1;
#elif VARYING
using LT = L<usize, cntgs::VaryingSize<DST>>;
constexpr usize FIELD = 1;
#else
using LT = L<cntgs::FixedSize<DST>, u16>;
constexpr usize FIELD = 0;
#endif
using Alloc = SAlloc<std::byte, AF_ALWAYS_EQUAL>;
using Vec = LT::Vec<Alloc>;

template <class Arg>
static void emplace(Vec& v, usize n, Arg&& arg)
{
#if VARYING == 2
    v.emplace_back(n, std::forward<Arg>(arg), u16{7});
#elif VARYING
    v.emplace_back(n, std::forward<Arg>(arg));
#else
    (void)n;
    v.emplace_back(std::forward<Arg>(arg), u16{7});
#endif
}

template <class SRC_, class DST_>
static void body()
{
    using SRC = SRC_;
    using DST = DST_;
    {
        usize n = verif_nondet_size();
        verif_assume(n <= LMAX);
        n = verif_fork(n);
        SRC src[LMAX] = {make_src(), make_src()};
        u64 before[LMAX];
        for (usize i = 0; i < LMAX; ++i)
        {
            before[i] = 0;
            before[i] = std::is_same_v<SRC, Ms> ? field_v(src[i]) : bits_of(src[i]);
        }
#if VARYING
        Vec v(1, n * sizeof(DST), Alloc{});
#else
        Vec v(1, {n}, Alloc{});
#endif
        bool expect_moved = false;
        bool counted = false;
#if FORM == 1  // contiguous container, lvalue
        Contig c{{src[0], src[1]}, n};
        emplace(v, n, c);
#define SOURCE_AFTER(i) c.a[i]
#elif FORM == 2  // contiguous container, const lvalue
        const Contig c{{src[0], src[1]}, n};
        emplace(v, n, c);
#define SOURCE_AFTER(i) c.a[i]
#elif FORM == 3  // contiguous container, rvalue: items are moved from
        Contig c{{src[0], src[1]}, n};
        emplace(v, n, std::move(c));
        expect_moved = true;
#define SOURCE_AFTER(i) c.a[i]
#elif FORM == 4  // C array (lvalue); the array length is the span length
        verif_assume(n == LMAX);
        SRC c[LMAX] = {src[0], src[1]};
        emplace(v, n, c);
#define SOURCE_AFTER(i) c[i]
#elif FORM == 5  // std::array
        verif_assume(n == LMAX);
        std::array<SRC, LMAX> c{src[0], src[1]};
        emplace(v, n, c);
#define SOURCE_AFTER(i) c[i]
#elif FORM == 6  // node based forward range, lvalue
        NodeRange c{{{src[0], nullptr}, {src[1], nullptr}, {src[0], nullptr}}, n};
        c.nodes[0].next = n > 1 ? &c.nodes[1] : nullptr;
        emplace(v, n, c);
        counted = true;
#define SOURCE_AFTER(i) c.nodes[i].v
#elif FORM == 7  // node based forward range, rvalue: items are moved from
        NodeRange c{{{src[0], nullptr}, {src[1], nullptr}, {src[0], nullptr}}, n};
        c.nodes[0].next = n > 1 ? &c.nodes[1] : nullptr;
        emplace(v, n, std::move(c));
        expect_moved = true;
        counted = true;
#define SOURCE_AFTER(i) c.nodes[i].v
#elif FORM == 8  // generated range
        GenRange c{src, n};
        emplace(v, n, c);
        counted = true;
#define SOURCE_AFTER(i) src[i]
#elif FORM == 9  // pointer as iterator (FixedSize only): exactly fixed-size items are consumed
        SRC c[LMAX + 1] = {src[0], src[1], src[0]};
        emplace(v, n, static_cast<const SRC*>(c));
#define SOURCE_AFTER(i) c[i]
#elif FORM == 10  // move_iterator (FixedSize only)
        SRC c[LMAX + 1] = {src[0], src[1], src[0]};
        emplace(v, n, std::make_move_iterator(static_cast<SRC*>(c)));
        expect_moved = true;
#define SOURCE_AFTER(i) c[i]
#elif FORM == 11  // counting forward iterator (FixedSize only)
        NodeRange c{{{src[0], nullptr}, {src[1], nullptr}, {src[0], nullptr}}, LMAX + 1};
        c.nodes[0].next = &c.nodes[1];
        c.nodes[1].next = &c.nodes[2];
        emplace(v, n, c.begin());
        counted = true;
#define SOURCE_AFTER(i) c.nodes[i].v
#elif FORM == 12  // generated iterator (FixedSize only)
        emplace(v, n, GenIt{src, 0});
        counted = true;
#define SOURCE_AFTER(i) src[i]
#elif FORM == 13  // reverse_iterator over an array (FixedSize only): random access, lvalue references, operator-> - but it walks backwards
        SRC c[LMAX + 1] = {src[0], src[1], make_src()};
        emplace(v, n, std::make_reverse_iterator(static_cast<const SRC*>(c) + n));
#define SOURCE_AFTER(i) c[(i) < n ? n - 1 - (i) : (i)]
#define SRC_AT(i) src[(i) < n ? n - 1 - (i) : (i)]
#else  // segmented random-access iterator (FixedSize only)
#ifdef KF_CONTIG_HEURISTIC
        verif_assume(n <= 1);  // discriminator of KF-contig-heuristic: with at most one item contiguity is vacuous
#endif
        const Seg c{src[0], {}, src[1], {}, make_src()};
        emplace(v, n, SegIt{&c, 0});
#define SOURCE_AFTER(i) c.at(i)
#endif
#ifndef SRC_AT
#define SRC_AT(i) src[i]
#endif
        const auto span = cntgs::get<FIELD>(v[0]);
        verif_assert(span.size() == n, 101);
        for (usize i = 0; i < LMAX; ++i)
        {
            if (i < n)
            {
                SRC s0 = SRC_AT(i);
                reset_moved(s0);
                const DST want = convert(s0);
                verif_assert(bits_of(span[i]) == bits_of(want), 110);  // item by item T(source item)
                if constexpr (std::is_same_v<SRC, Ms>)
                {
                    verif_assert(field_v(SOURCE_AFTER(i)) == field_v(SRC_AT(i)), 120);
                    verif_assert(field_moved(SOURCE_AFTER(i)) == (expect_moved ? 1u : 0u), 121);  // moved from exactly once / not at all
                    if (FORM != 8 && FORM != 12)  // a generated range hands out prvalues: constructing from them is a move of the temporary
                    {
                        verif_assert(field_how(span[i]) == (expect_moved ? 2u : 1u), 122);
                    }
                }
                else
                {
                    verif_assert(bits_of(SOURCE_AFTER(i)) == bits_of(SRC_AT(i)), 120);  // sources of trivially copyable types are unchanged
                }
            }
            else if constexpr (std::is_same_v<SRC, Ms>)
            {
                verif_assert(field_moved(SOURCE_AFTER(i)) == 0, 123);  // items beyond the length are not touched
            }
        }
        if (counted)
        {
            verif_assert(g_deref == n, 130);  // exactly as many items are consumed as the parameter holds
            verif_assert(g_incr <= n, 131);
        }
        verif_assert(v.size() == 1, 102);
#if VARYING != 1
        verif_assert(cntgs::get<FIELD + 1>(v[0]) == 7, 103);  // the field behind the span is found where it was stored, whatever the span length
#endif
        verif_reach(1);
    }
}

extern "C" void h_entry()
{
    body<SRC, DST>();
    verif_assert(verif_live_blocks() == 0, 9101);
}
