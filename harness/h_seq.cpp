// C01 (and, through the engine's built-in BOUNDS/ALIGN/LEDGER checks, C02/C03/C07/C10/C16/C18 side conditions):
// pre-state of k emplaced elements, then a compile-time chosen sequence of operations with symbolic arguments,
// the real vector and the tuple-sequence model driven side by side, Inv after every step.
#include "model.hpp"

#ifndef LIST
#define LIST u16, cntgs::AlignAs<usize, 8>, cntgs::VaryingSize<u32>, u8
#endif
#ifndef AFLAGS
#define AFLAGS AF_ALWAYS_EQUAL
#endif
#ifndef OPS
#define OPS OP_ERASE, OP_EMPLACE
#endif
#ifndef K0
#define K0 3  // elements in the pre-state: 0..K0 (case split)
#endif
#ifndef BMAX
#define BMAX 64
#endif

enum : int
{
    OP_EMPLACE = 1,
    OP_POP = 2,
    OP_ERASE = 3,
    OP_ERASE_RANGE = 4,
    OP_CLEAR = 5,
    OP_RESERVE = 6,
    OP_PROBE = 7  // emplace_back only if the model says there is room
};

using LT = L<LIST>;
using Alloc = SAlloc<std::byte, AFLAGS>;
using Vec = LT::Vec<Alloc>;
using M = Model<LT::N>;

// address snapshot for C16 (no hidden reallocation)
struct Snap
{
    std::uintptr_t base;
    std::uintptr_t elem[KMAX];
    usize allocs;
};
static Snap snap(const Vec& v, const M& m)
{
    Snap s{};
    s.base = addr_of(v.data_begin());
    for (usize i = 0; i < KMAX; ++i)
    {
        if (i < m.n)
        {
            s.elem[i] = addr_of((v.begin() + i).data());
        }
    }
    s.allocs = verif_alloc_count();
    return s;
}
static void same_addresses(const Vec& v, const Snap& s, usize upto, int id)
{
    verif_assert(verif_alloc_count() == s.allocs, id);
    verif_assert(addr_of(v.data_begin()) == s.base, id + 1);
    for (usize i = 0; i < KMAX; ++i)
    {
        if (i < upto)
        {
            verif_assert(addr_of((v.begin() + i).data()) == s.elem[i], id + 2);
        }
    }
}

static bool has_room(const M& m, const MElem<LT::N>& e)
{
    return m.n < m.cap && live_payload<LT>(m) + payload_bytes<LT>(e) <= m.budget;
}

static void step(Vec& v, M& m, int op, int base, typename Vec::const_iterator& cit)
{
    switch (op)
    {
        case OP_EMPLACE:
        case OP_PROBE:
        {
            if (m.n >= KMAX)
            {
                break;
            }
            const auto e = draw_elem<LT>(m);
            if (op == OP_PROBE)
            {
                if (!has_room(m, e))
                {
                    break;
                }
            }
            else
            {
                verif_assume(has_room(m, e));
            }
            const Snap s = snap(v, m);
            emplace_elem<LT>(v, e);
            m.e[m.n++] = e;
            same_addresses(v, s, m.n - 1, base + 90);
            break;
        }
        case OP_POP:
        {
            verif_assume(m.n > 0);
            const Snap s = snap(v, m);
            v.pop_back();
            --m.n;
            same_addresses(v, s, m.n, base + 90);
            break;
        }
        case OP_ERASE:
        {
            verif_assume(m.n > 0);
            usize pos = verif_nondet_size();
            verif_assume(pos < m.n);
            pos = verif_fork(pos);
#ifdef KF_ERASE_OVERLAP
            verif_assume(!erase_overlaps<LT>(m, pos, pos + 1));
#endif
            const Snap s = snap(v, m);
            auto it = v.erase(v.begin() + pos);
            verif_assert(it == v.begin() + pos, base + 80);
            verif_assert(it.index() == pos, base + 81);
            m_erase(m, pos, pos + 1);
            same_addresses(v, s, pos, base + 90);
            break;
        }
        case OP_ERASE_RANGE:
        {
            usize first = verif_nondet_size(), last = verif_nondet_size();
            verif_assume(first <= last && last <= m.n);
            first = verif_fork(first);
            last = verif_fork(last);
#ifdef KF_ERASE_OVERLAP
            verif_assume(!erase_overlaps<LT>(m, first, last));
#endif
            const Snap s = snap(v, m);
            auto it = v.erase(v.begin() + first, v.begin() + last);
            verif_assert(it == v.begin() + first, base + 80);
            m_erase(m, first, last);
            same_addresses(v, s, first, base + 90);
            break;
        }
        case OP_CLEAR:
        {
            const Snap s = snap(v, m);
            v.clear();
            m.n = 0;
            same_addresses(v, s, 0, base + 90);
            break;
        }
        case OP_RESERVE:
        {
            const usize n = verif_nondet_size(), b = verif_nondet_size();
            verif_assume(n <= KMAX && b <= BMAX && b >= live_payload<LT>(m));
            verif_assume(LT::NVARY != 0 || b == 0);  // the byte budget only exists for lists with a VaryingSize parameter
            const Snap s = snap(v, m);
            const usize mem_before = v.memory_consumption();
            v.reserve(n, b);
            if (n > m.cap)
            {
                m.cap = n;
                m.budget = b;
                // C05: not more than it consumed before or than a freshly constructed vector of the same capacity and budget
                const Vec fresh = make_vec<LT, Vec>(n, LT::NVARY ? b : 0, m.fixed, Alloc(1));
                const usize lim = fresh.memory_consumption() > mem_before ? fresh.memory_consumption() : mem_before;
                verif_assert(v.memory_consumption() <= lim, base + 93);
                verif_assert(verif_block_size(v.data_begin()) == v.memory_consumption(), base + 94);
            }
            else
            {
                same_addresses(v, s, m.n, base + 90);  // C10: does nothing at all
            }
            break;
        }
        default: break;
    }
    inv<LT>(v, m, base);
    // a long-lived const_iterator variable is re-seated after every operation (the block may have moved) by the converting
    // assignment from a mutable iterator, then used for iteration
    cit = v.begin();
    {
        usize i = 0;
        for (; cit != v.end() && i < KMAX; ++cit, ++i)
        {
            if (i < m.n)
            {
                check_elem<LT>(*cit, m.e[i], base + 40);
            }
        }
        verif_assert(i == m.n || i == KMAX, base + 5);
    }
    verif_assert(verif_live_objs() == tr_count<LT>(m), base + 97);  // C06
    // C02/C18: the data range is inside the block, ordered, and no larger than memory_consumption()
    const Vec& cv = v;
    verif_assert(addr_of(cv.data_end()) >= addr_of(cv.data_begin()), base + 7);
    verif_assert(static_cast<usize>(cv.data_end() - cv.data_begin()) <= cv.memory_consumption(), base + 8);
    if (m.n == 0)
    {
        verif_assert(cv.data_begin() == cv.data_end(), base + 9);
        verif_assert(cv.begin() == cv.end(), base + 9);
    }
    verif_assert(verif_in_live_block(cv.data_begin(), static_cast<usize>(cv.data_end() - cv.data_begin())), base + 95);
}

extern "C" void h_entry()
{
    {
        M m{};
        for (usize j = 0; j < LT::N; ++j)
        {
            if (LT::kind[j] == K_FIXED)
            {
                usize f = verif_nondet_size();
                verif_assume(f <= SMAX);
                m.fixed[j] = verif_fork(f);
            }
        }
        const usize cap = verif_nondet_size(), budget = verif_nondet_size();
        verif_assume(cap <= KMAX && budget <= BMAX);
        usize k = verif_nondet_size();
        verif_assume(k <= K0 && k <= cap);
        k = verif_fork(k);
        Vec v = make_vec<LT, Vec>(cap, LT::NVARY ? budget : 0, m.fixed, Alloc(1));
        m.cap = cap;
        m.budget = LT::NVARY ? budget : 0;
        for (usize i = 0; i < K0; ++i)
        {
            if (i < k)
            {
                const auto e = draw_elem<LT>(m);
                verif_assume(has_room(m, e));
                emplace_elem<LT>(v, e);
                m.e[m.n++] = e;
            }
        }
        inv<LT>(v, m, 100);
        constexpr int ops[] = {OPS};
        int base = 200;
        typename Vec::const_iterator cit = v.begin();
        for (int op : ops)
        {
            step(v, m, op, base, cit);
            base += 100;
        }
        verif_reach(1);
    }
    verif_assert(verif_live_objs() == 0, 9100);
    verif_assert(verif_live_blocks() == 0, 9101);
}
