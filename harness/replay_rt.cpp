// Native implementation of the harness intrinsics. Used (a) to replay a solver model against a real build of the
// same harness translation unit (g++/clang++ -O0 -g, ASan + UBSan) and (b) for differential validation of the
// encoder (concrete inputs through both the native build and llsym, observation streams compared).
//
// Replay file (text): lines
//   I <value>          next verif_nondet_* / verif_alloc_fail input, in call order
//   A <slack> <n> b0 b1 ...   next allocation: slack bytes in front, first n junk bytes of the fresh block
//   P <seed>           pinned mode: junk of block #o at offset k is (seed*131 + o*17 + k*7 + 3) & 0xff (as in llsym)
#include <cstdint>
#include <cstdio>
#include <cstdlib>
#include <cstring>
#include <map>
#include <string>
#include <vector>

#if defined(__has_feature)
#if __has_feature(address_sanitizer)
#define VERIF_ASAN 1
#endif
#endif
#if defined(__SANITIZE_ADDRESS__)
#define VERIF_ASAN 1
#endif
#ifdef VERIF_ASAN
#include <sanitizer/asan_interface.h>
#endif

namespace
{
struct AllocSpec
{
    std::size_t slack;
    std::vector<unsigned char> junk;
};
std::vector<unsigned long long> inputs;
std::size_t ipos;
std::vector<AllocSpec> specs;
std::size_t apos;
bool pinned = false;
unsigned long long pin_seed = 0;
int failures = 0;
struct Block
{
    std::size_t bytes, align;
    int id, kind;
    bool live;
    void* raw;
};
std::map<void*, Block> blocks;
std::size_t alloc_count, bytes_requested;
std::map<const void*, std::pair<std::size_t, bool>> objs;
std::vector<std::pair<void*, std::vector<unsigned char>>> frozen;
std::vector<int> frozen_ids;
unsigned long long next_input()
{
    return ipos < inputs.size() ? inputs[ipos++] : 0;
}
void fail(const char* what, const char* msg)
{
    std::printf("%s %s\n", what, msg);
    std::fflush(stdout);
    ++failures;
}
}  // namespace

extern "C"
{
    std::size_t verif_nondet_size() { return next_input(); }
    std::uint64_t verif_nondet_u64() { return next_input(); }
    std::uint32_t verif_nondet_u32() { return static_cast<std::uint32_t>(next_input()); }
    std::uint16_t verif_nondet_u16() { return static_cast<std::uint16_t>(next_input()); }
    std::uint8_t verif_nondet_u8() { return static_cast<std::uint8_t>(next_input()); }
    std::size_t verif_fork(std::size_t x) { return x; }
    bool verif_alloc_fail() { return (next_input() & 1) != 0; }
    void verif_assume(bool c)
    {
        if (!c)
        {
            std::printf("ASSUME-FALSE (input outside the stated precondition)\n");
            std::fflush(stdout);
            std::_Exit(3);
        }
    }
    void verif_assert(bool c, int id)
    {
        if (!c)
        {
            std::printf("ASSERT-FAIL id=%d\n", id);
            std::fflush(stdout);
            ++failures;
        }
    }
    void* verif_alloc(std::size_t bytes, std::size_t align, int id)
    {
        for (int fid : frozen_ids)
        {
            if (fid == id)
            {
                fail("RACE-WRITE-FAIL", "allocation through the allocator instance of a shared container during a const operation");
                break;
            }
        }
        AllocSpec spec{align, {}};
        if (apos < specs.size())
        {
            spec = specs[apos];
        }
        const std::size_t order = apos++;
        void* raw = nullptr;
        const std::size_t total = bytes + spec.slack;
        if (posix_memalign(&raw, 4096, total ? total : 1))
        {
            std::abort();
        }
        unsigned char* p = static_cast<unsigned char*>(raw) + spec.slack;
        for (std::size_t k = 0; k < bytes; ++k)
        {
            p[k] = pinned ? static_cast<unsigned char>((pin_seed * 131 + order * 17 + k * 7 + 3) & 0xff)
                          : (k < spec.junk.size() ? spec.junk[k] : static_cast<unsigned char>(0xA5 + order));
        }
#ifdef VERIF_ASAN
        if (spec.slack)
        {
            ASAN_POISON_MEMORY_REGION(raw, spec.slack);
        }
#endif
        blocks[p] = Block{bytes, align, id, 0, true, raw};
        ++alloc_count;
        bytes_requested += bytes;
        return p;
    }
    void verif_free(void* p, std::size_t bytes, std::size_t align, int id)
    {
        auto it = blocks.find(p);
        if (it == blocks.end())
        {
            return fail("LEDGER-FAIL", "deallocate of a pointer that is not the base of an allocated block");
        }
        Block& b = it->second;
        if (!b.live)
        {
            return fail("LEDGER-FAIL", "block deallocated twice");
        }
        if (b.bytes != bytes)
        {
            fail("LEDGER-FAIL", "deallocate size differs from allocate size");
        }
        if (b.align != align)
        {
            fail("LEDGER-FAIL", "deallocate through an allocator rebound to a different type");
        }
        if (b.id != id)
        {
            fail("LEDGER-FAIL", "block deallocated through an unequal allocator");
        }
        for (auto& o : objs)
        {
            if (o.second.second && o.first >= p && o.first < static_cast<unsigned char*>(p) + b.bytes)
            {
                fail("LIFETIME-FAIL", "block deallocated while an object in it is still alive");
                break;
            }
        }
        b.live = false;
#ifdef VERIF_ASAN
        ASAN_UNPOISON_MEMORY_REGION(b.raw, b.bytes + (static_cast<unsigned char*>(p) - static_cast<unsigned char*>(b.raw)));
#endif
        std::free(b.raw);
    }
    void verif_obj(const void* self, int ev, const void* other, std::size_t size)
    {
        if (ev == 5 || ev == 6)
        {
            return;
        }
        auto cur = objs.find(self);
        const bool live = cur != objs.end() && cur->second.second;
        if (ev <= 2)
        {
            if (live)
            {
                fail("LIFETIME-FAIL", "object constructed on top of a live object");
            }
            for (auto& o : objs)
            {
                const auto a = reinterpret_cast<std::uintptr_t>(o.first), s = reinterpret_cast<std::uintptr_t>(self);
                if (o.second.second && a != s && a < s + size && s < a + o.second.first)
                {
                    fail("LIFETIME-FAIL", "object constructed overlapping a live object");
                    break;
                }
            }
            if (ev >= 1)
            {
                auto o = objs.find(other);
                if (o == objs.end() || !o->second.second)
                {
                    fail("LIFETIME-FAIL", "copy/move construction from an object that is not alive");
                }
            }
            objs[self] = {size, true};
        }
        else if (ev == 3)
        {
            if (!live)
            {
                fail("LIFETIME-FAIL", "destructor run on an object that is not alive");
            }
            objs[self] = {size, false};
        }
        else if (ev == 4)
        {
            if (!live)
            {
                fail("LIFETIME-FAIL", "object used while not alive");
            }
        }
    }
    void verif_freeze()
    {
        frozen.clear();
        for (auto& b : blocks)
        {
            if (b.second.live)
            {
                auto* p = static_cast<unsigned char*>(b.first);
                frozen.emplace_back(b.first, std::vector<unsigned char>(p, p + b.second.bytes));
            }
        }
    }
    void verif_freeze_allocs()
    {
        frozen_ids.clear();
        for (auto& b : blocks)
        {
            if (b.second.live)
            {
                frozen_ids.push_back(b.second.id);
            }
        }
    }
    void verif_thaw()
    {
        frozen_ids.clear();
        for (auto& f : frozen)
        {
            auto it = blocks.find(f.first);
            if (it == blocks.end() || !it->second.live)
            {
                fail("RACE-WRITE-FAIL", "frozen block deallocated during a const operation");
                continue;
            }
            if (std::memcmp(f.first, f.second.data(), f.second.size()) != 0)
            {
                fail("RACE-WRITE-FAIL", "contents of a frozen block changed during a const operation");
            }
        }
        frozen.clear();
    }
    void verif_thaw_obj(const void*) {}
    void verif_reach(int) {}
    void verif_observe(std::uint64_t x) { std::printf("OBS %llu\n", static_cast<unsigned long long>(x)); }
    std::size_t verif_live_blocks()
    {
        std::size_t n = 0;
        for (auto& b : blocks)
        {
            n += b.second.live;
        }
        return n;
    }
    std::size_t verif_live_blocks_of(std::size_t align)
    {
        std::size_t n = 0;
        for (auto& b : blocks)
        {
            n += b.second.live && b.second.align == align;
        }
        return n;
    }
    std::size_t verif_alloc_count() { return alloc_count; }
    std::size_t verif_bytes_requested() { return bytes_requested; }
    std::size_t verif_block_size(const void* base)
    {
        auto it = blocks.find(const_cast<void*>(base));
        return it != blocks.end() && it->second.live ? it->second.bytes : 0;
    }
    bool verif_in_live_block(const void* p, std::size_t n)
    {
        if (!p)
        {
            return n == 0;
        }
        for (auto& b : blocks)
        {
            auto* base = static_cast<const unsigned char*>(b.first);
            auto* q = static_cast<const unsigned char*>(p);
            if (b.second.live && q >= base && q <= base + b.second.bytes && n <= static_cast<std::size_t>(base + b.second.bytes - q))
            {
                return true;
            }
        }
        return false;
    }
    std::size_t verif_live_objs()
    {
        std::size_t n = 0;
        for (auto& o : objs)
        {
            if (!o.second.second)
            {
                continue;
            }
            for (auto& b : blocks)
            {
                auto* base = static_cast<const unsigned char*>(b.first);
                if (o.first >= base && o.first < base + b.second.bytes)
                {
                    ++n;
                    break;
                }
            }
        }
        return n;
    }
}

#ifndef VERIF_ENTRY
#define VERIF_ENTRY h_entry
#endif
extern "C" void VERIF_ENTRY();

int main(int argc, char** argv)
{
    if (argc < 2)
    {
        std::fprintf(stderr, "usage: %s <replay-file>\n", argv[0]);
        return 2;
    }
    std::FILE* f = std::fopen(argv[1], "r");
    if (!f)
    {
        std::perror("replay file");
        return 2;
    }
    char tag;
    while (std::fscanf(f, " %c", &tag) == 1)
    {
        if (tag == 'I')
        {
            unsigned long long v;
            if (std::fscanf(f, "%llu", &v) != 1) break;
            inputs.push_back(v);
        }
        else if (tag == 'A')
        {
            unsigned long long slack, n;
            if (std::fscanf(f, "%llu %llu", &slack, &n) != 2) break;
            AllocSpec s{static_cast<std::size_t>(slack), {}};
            for (unsigned long long k = 0; k < n; ++k)
            {
                unsigned b;
                if (std::fscanf(f, "%u", &b) != 1) break;
                s.junk.push_back(static_cast<unsigned char>(b));
            }
            specs.push_back(s);
        }
        else if (tag == 'P')
        {
            if (std::fscanf(f, "%llu", &pin_seed) != 1) break;
            pinned = true;
        }
        else
        {
            char buf[4096];
            if (!std::fgets(buf, sizeof buf, f)) break;  // comment line
        }
    }
    std::fclose(f);
    VERIF_ENTRY();
    std::printf("REPLAY-DONE failures=%d\n", failures);
    return failures ? 1 : 0;
}
