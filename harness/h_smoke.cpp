// setup smoke test: one emplace_back + read back on a varying-size list, symbolic value
#include "model.hpp"
using LT = L<u16, cntgs::AlignAs<usize, 8>, cntgs::VaryingSize<u32>, u8>;
using Vec = LT::Vec<SAlloc<std::byte>>;
extern "C" void h_entry()
{
    Model<LT::N> m{};
    m.cap = 1;
    m.budget = 8;
    Vec v = make_vec<LT, Vec>(1, 8, m.fixed, SAlloc<std::byte>{});
    const auto e = draw_elem<LT>(m);
    emplace_elem<LT>(v, e);
    m.e[m.n++] = e;
    inv<LT>(v, m, 100);
    verif_reach(1);
}
