"""Obligation plan: which harness x configuration x shape is run for which property and tier, and how a violation
found by the engine is attributed to a property. See DESIGN.md sections 5 and 6."""
import random

A = 'cntgs::AlignAs'
F = 'cntgs::FixedSize'
V = 'cntgs::VaryingSize'

LISTS = {
    'P1': 'u32, u8, u16',
    'P2': f'u8, {A}<u32,8>, u16, {A}<u64,4>',
    'F1': f'u16, {F}<u32>, u8',
    'F2': f'{F}<{A}<u8,8>>, {A}<u32,16>, {F}<u16>',
    'V1': f'u16, {A}<usize,8>, {V}<u32>, u8',
    'V2': f'u16, {A}<usize,8>, {V}<{A}<u32,16>>, u8, {A}<u32,4>',
    'V3': f'usize, {V}<u8>, {A}<usize,8>, {V}<{A}<u16,4>>, u8',
    'M1': f'{F}<u16>, u32, {A}<usize,8>, {V}<{A}<u32,8>>',
    'M2': f'usize, {V}<u32>, {A}<u32,8>, {F}<u64>',   # mixed: span, aligned plain, then 8-byte objects of alignment 1 as the last parameter
    'V5': f'u32, {V}<{A}<u64,8>>, u32',          # 4-byte count: run-time padding between the count and an over-aligned span, also when the span is empty
    'V6': f'u32, {A}<u64,8>, u32, {V}<u64>',      # 8-byte objects of alignment 1 behind a 4-byte count: elements of 4 mod 8 bytes unless the stride is re-aligned
    'FF': f'{F}<u16>, {F}<u8>',                  # nothing but FixedSize spans: elements of zero bytes when all fixed sizes are 0
    'V4': f'usize, {V}<u8>, {A}<u32,8>',        # span whose length differences hide in the padding in front of an aligned field
    'N1': f'{F}<Tr>, Tr',
    'N2': f'{A}<usize,8>, {V}<Tr>, Tr',
    'N3': f'u32, {F}<Tr>, u16, Tr, u8',
    'S1': f'usize, {V}<Sp>, Sp',                  # Sp: trivially destructible, not trivially copy/move constructible (address-sensitive)
    'S2': f'{F}<Sp>, u32, Sp',
    'N4': f'usize, {V}<Tr>, usize, {V}<Tr>',      # two spans of non-trivial objects: the same total size splits differently
    'E1': 'u8, u8',
    'E2': f'u8, {A}<u32,4>',
    'E3': f'{F}<u8>, u16',
    'E4': f'usize, {V}<u8>',
    'E5': f'u8, {A}<u8,4>',
    'G1': f'Cm, {F}<Cm>',
    'G2': f'usize, {V}<Cm>',
    'FL1': 'u32, float',                       # floating point: == is not bitwise (+0.0 == -0.0)
    'FL2': f'{F}<double>, u64',
    'FL3': f'usize, {V}<float>',
    'FL4': f'u32, {A}<usize,8>, {V}<float>',     # element-wise comparison + elements that end off the storage alignment
    'G3': f'u32, {A}<usize,8>, {V}<Cm>',
    'A1': f'u32, Am, u16',                        # Am: trivial copy assignment, user-provided move assignment that marks the source
    'A2': f'{F}<Am>, u32',
    'G4': f'u16, u32, {V}<Ce>',                  # Ce: == ignores the low bit (not bytewise identity) although the type is trivially copyable and padding-free
    'G5': f'{F}<Ce>, Ce',
    'S16': f'{F}<u16>',                          # one multi-byte field: byte order != numeric order
    'U1': f'u16, {V}<u32>, u8',                   # no AlignAs at all: the element's block size is counted in bytes, so assignments between unequal allocators can reuse the block (C12)
    'R1': f'u32, {F}<u32>',                     # one trivially swappable/assignable run of 4 + 4n bytes, n up to 15 (C11)
}
TWO_SPAN = {'F2', 'V3', 'M1', 'M2', 'N4', 'FF'}
TRIVIAL = ['P1', 'P2', 'F1', 'F2', 'V1', 'V2', 'V3', 'M1']
NONTRIVIAL = ['N1', 'N2', 'N3']
CORE = TRIVIAL + NONTRIVIAL
HAS_VARY = {'V1', 'V2', 'V3', 'M1', 'N2', 'E4', 'G2', 'V5', 'N4', 'V6', 'S1', 'G4'}

# ---- layout family (Mode A) -----------------------------------------------------------------------------------------
SIZE_T = {1: 'u8', 2: 'u16', 4: 'u32', 8: 'u64', 12: 'Bs<12>', 16: 'Bs<16>'}


def family():
    """all lists of <= 3 payload parameters over {plain, fixed, varying} x object size x alignment; a varying parameter is
    preceded by its count field (size_t or AlignAs<size_t,8>)"""
    import itertools
    params = []
    for kind in 'PFV':
        for sz in (1, 2, 4, 12, 16):
            for al in (1, 2, 4, 8, 16, 32):
                params.append((kind, sz, al))
    out = []
    for n in (1, 2, 3):
        for combo in itertools.product(params, repeat=n):
            for cnt in ('usize', f'{A}<usize,8>'):
                if cnt != 'usize' and not any(k == 'V' for k, _, _ in combo): continue
                out.append((combo, cnt))
    return out


def family_list(combo, cnt):
    parts = []
    for kind, sz, al in combo:
        t = SIZE_T[sz]
        if al != 1: t = f'{A}<{t},{al}>'
        if kind == 'P': parts.append(t)
        elif kind == 'F': parts.append(f'{F}<{t}>')
        else: parts += [cnt, f'{V}<{t}>']
    return ', '.join(parts)


def family_name(combo, cnt):
    return ''.join(f'{k}{s}a{a}' for k, s, a in combo) + ({'usize': '', 'u32': 'c4'}.get(cnt, 'c8'))


def layout_ob(prop, name, lst, nelem=2, maxspan=65535, reserved=0, nvary=None, cfg=None):
    if nvary is None: nvary = lst.count(V + '<')
    nspans = nvary + lst.count(F + '<')
    if (nvary >= 2 or F + '<' in lst) and maxspan > 64: maxspan = 64   # see DESIGN 3.6: symbolic fixed sizes / two spans
    d = [f'-DLIST={lst}', f'-DNELEM={nelem}', f'-DMAXSPAN={maxspan}', f'-DRESERVED={reserved}']
    if nspans >= 3:
        d.append(f'-DFORKED={nspans - 2}')     # all but the last two spans: complete case split over 0..3 objects (DESIGN 9)
        name += f'/fork{nspans - 2}'
    c = dict(slack='both', abstract_memcpy=True, budget_s=900)
    if cfg: c.update(cfg)
    return dict(prop=prop, name=f"layout/{name}/n{nelem}/s{maxspan}" + ({0: '', 1: '/reserved', 2: '/default-reserved'}[int(reserved)]), harness='h_layout.cpp', defines=d, entry='h_entry', cfg=c, list=name)


# ---- attribution of an engine violation to a property ---------------------------------------------------------------
KIND_PROP = {
    'BOUNDS': 'C02', 'OVERLAP': 'C02', 'ALIGN': 'C03', 'ASSERT': 'C03', 'LEDGER': 'C07', 'FOREIGN-ALLOC': 'C07',
    'LIFETIME': 'C06', 'CLOBBER': 'C06', 'TERMINATE': 'C17', 'EXC': 'C17', 'RACE-WRITE': 'C19',
    'UNREACHABLE': 'C02', 'TRAP': 'C02', 'ASSUME': 'C02',
}


def attribute_seq(aid):
    """h_seq.cpp assertion ids"""
    if aid in (9100,) or 9001 <= aid <= 9019: return 'C06'
    if aid == 9101: return 'C07'
    loc = aid % 100
    if loc in (7, 8, 95): return 'C02'
    if loc == 9: return 'C18'
    if 90 <= loc <= 92: return 'C16'
    if loc in (93, 94, 99): return 'C05'
    if loc == 96: return 'C03'
    if loc == 97: return 'C06'
    if loc == 98: return 'C04'
    return 'C01'


ATTR = {'h_seq.cpp': attribute_seq}


OWNER = {'h_seq.cpp': 'C01', 'h_copy.cpp': 'C09', 'h_elem.cpp': 'C12', 'h_ref.cpp': 'C11', 'h_layout.cpp': 'C02', 'h_cmp.cpp': 'C13',
         'h_emplace.cpp': 'C15', 'h_exc.cpp': 'C17', 'h_const.cpp': 'C19', 'h_empty.cpp': 'C18'}
UB_KINDS = ('BOUNDS', 'OVERLAP', 'UNREACHABLE', 'TRAP', 'ASSUME')


def attribute(ob, viol):
    """set of properties a violation counts against. Undefined behaviour inside the operation a property specifies counts
    against that property as well as against the memory-safety property C02."""
    k = viol['kind']
    if k == 'COMPILE': return {ob.get('prop')}
    if k == 'PROP':
        f = ATTR.get(ob['harness'])
        p = f(viol['assert_id']) if f else ob.get('prop')
        out = {p}
        if p in ob.get('also', {}): out.add(ob['also'][p])
        return out
    out = {KIND_PROP.get(k, ob.get('prop'))}
    if k == 'LEDGER' and 'unequal allocator' in viol['msg']: out.add('C08')
    if k in UB_KINDS:
        out.add(ob.get('owner') or OWNER.get(ob['harness'], ob.get('prop')))
        out.add(ob.get('prop'))     # undefined behaviour inside an operation the property chose to drive voids its claim
    if k in ('LEDGER', 'FOREIGN-ALLOC'):
        out.add(ob.get('prop'))     # a deallocate that breaks the allocator's requirements (wrong size / base / instance) is undefined behaviour too
    return out


# ---- obligations ----------------------------------------------------------------------------------------------------
def seq_ob(prop, lid, ops, k0=None, aflags='AF_ALWAYS_EQUAL', extra=(), cfg=None, name=None, smax=None):
    two = lid in TWO_SPAN
    if k0 is None: k0 = 2 if two else 3
    d = [f'-DLIST={LISTS[lid]}', f'-DOPS={",".join(ops)}', f'-DK0={k0}', f'-DAFLAGS={aflags}'] + list(extra)
    if smax is not None: d.append(f'-DSMAX={smax}')
    c = dict(slack='min', budget_s=900)
    if cfg: c.update(cfg)
    return dict(prop=prop, name=name or f"seq/{lid}/k{k0}/{'+'.join(o[3:].lower() for o in ops)}" + (f"/s{smax}" if smax is not None else ''), harness='h_seq.cpp', defines=d,
                entry='h_entry', cfg=c, list=lid)


SINGLE_OPS = ['OP_EMPLACE', 'OP_POP', 'OP_ERASE', 'OP_ERASE_RANGE', 'OP_CLEAR', 'OP_RESERVE']
QUICK_PAIRS = [('OP_ERASE', 'OP_PROBE'), ('OP_RESERVE', 'OP_PROBE'), ('OP_CLEAR', 'OP_PROBE'), ('OP_ERASE', 'OP_ERASE'),
               ('OP_POP', 'OP_PROBE'), ('OP_ERASE_RANGE', 'OP_PROBE')]


def pool_seq(prop, lists, tier, ops_filter=None, aflags='AF_ALWAYS_EQUAL'):
    obs = []
    for lid in lists:
        for op in SINGLE_OPS:
            if ops_filter and op not in ops_filter: continue
            obs.append(seq_ob(prop, lid, [op, 'OP_PROBE'] if op in ('OP_RESERVE',) else [op], aflags=aflags))
        for a, b in QUICK_PAIRS:
            if ops_filter and a not in ops_filter: continue
            obs.append(seq_ob(prop, lid, [a, b, 'OP_PROBE'] if b != 'OP_PROBE' else [a, b], aflags=aflags))
        if tier == 'thorough':
            for a in SINGLE_OPS:
                for b in SINGLE_OPS:
                    if ops_filter and a not in ops_filter and b not in ops_filter: continue
                    obs.append(seq_ob(prop, lid, [a, 'OP_PROBE', b, 'OP_PROBE'], k0=(1 if lid in TWO_SPAN else 2), aflags=aflags, smax=(1 if lid in TWO_SPAN else None)))
    return dedup(obs)


def dedup(obs):
    seen = set(); out = []
    for o in obs:
        if o['name'] in seen: continue
        seen.add(o['name']); out.append(o)
    return out


# ---- copy / move / swap ---------------------------------------------------------------------------------------------
COPY_OPS = ['OP_COPY_CTOR', 'OP_COPY_ASSIGN', 'OP_MOVE_CTOR', 'OP_MOVE_ASSIGN', 'OP_SWAP', 'OP_SELF']
ALLOC_KINDS = {   # name -> (AFLAGS expression, eq_ids)
    'ae': ('AF_ALWAYS_EQUAL', 0),
    'st-ne': ('0', 0), 'st-eq': ('0', 1),
    'prop-ne': ('AF_POCCA|AF_POCMA|AF_POCS', 0), 'prop-eq': ('AF_POCCA|AF_POCMA|AF_POCS', 1),
}


def copy_ob(prop, lid, op, akind='ae', ka=2, kb=1, aflags=None, eq=None, name=None):
    fl, e = ALLOC_KINDS.get(akind, (aflags, eq))
    if aflags is not None: fl = aflags
    if eq is not None: e = eq
    d = [f'-DLIST={LISTS[lid]}', f'-DOP={op}', f'-DKA={ka}', f'-DKB={kb}', f'-DAFLAGS=({fl})', f'-DEQ_IDS={e}']
    if lid in TWO_SPAN: d.append('-DSMAX=1')
    return dict(prop=prop, name=name or f"copy/{lid}/{akind}/{op[3:].lower()}/ka{ka}kb{kb}", harness='h_copy.cpp', defines=d, entry='h_entry',
                cfg=dict(slack='min', budget_s=1200), list=lid)


def pool_copy(prop, lists, tier, akinds=('ae',), ops=COPY_OPS):
    obs = []
    for lid in lists:
        for ak in akinds:
            for op in ops:
                if op in ('OP_COPY_CTOR', 'OP_MOVE_CTOR', 'OP_SELF') and ak.endswith('-eq'): continue
                obs.append(copy_ob(prop, lid, op, ak, ka=2, kb=(1 if tier == 'quick' or lid in TWO_SPAN else 2)))   # two-span lists: a second pre-state element of the target exceeds the obligation budget
    return dedup(obs)


def attribute_copy(aid):
    if aid in (9100,) or 9001 <= aid <= 9019: return 'C06'
    if aid == 9101: return 'C07'
    if aid in (801, 802): return 'C08'
    if aid % 100 == 99: return 'C05'
    if 810 <= aid <= 813: return 'C05'
    if aid in (890, 891): return 'C16'
    if aid == 897: return 'C06'
    loc = aid % 100
    if loc in (7, 8, 95): return 'C02'
    if loc == 96: return 'C03'
    if loc == 97: return 'C06'
    if loc == 98: return 'C04'
    return 'C09'


def attribute_layout(aid):
    if aid in (1, 4, 30, 31): return 'C03'
    if aid in (10, 11, 12, 13, 14): return 'C05'
    if 20 <= aid <= 27: return 'C04'
    if aid == 3: return 'C02'
    return 'C10'   # 2, 5: capacity()/size() after construction or reserve


def attribute_ref(aid):
    if aid % 100 == 99 and aid < 9000: return 'C05'
    if aid == 9100 or 9001 <= aid <= 9019 or aid == 297: return 'C06'
    if aid == 9101: return 'C07'
    loc = aid % 100
    if loc == 96: return 'C03'
    if loc == 98: return 'C04'
    return 'C11'


def attribute_elem(aid):
    if aid % 100 == 99 and aid < 9000: return 'C05'
    if aid == 9100 or 9001 <= aid <= 9019 or aid == 297: return 'C06'
    if aid == 9101: return 'C07'
    if aid == 801: return 'C08'
    loc = aid % 100
    if loc == 96: return 'C03'
    if loc == 98: return 'C04'
    return 'C12'


ATTR['h_ref.cpp'] = attribute_ref
ATTR['h_elem.cpp'] = attribute_elem
ATTR['h_copy.cpp'] = attribute_copy
ATTR['h_layout.cpp'] = attribute_layout


# ---- layout pool ----------------------------------------------------------------------------------------------------
def sym_spans(combo):
    return sum(1 for k, _, _ in combo if k in 'FV')


def pool_layout(prop, tier, seed, reserved=False):
    obs = []
    for lid in TRIVIAL:
        lst = LISTS[lid]
        ns = lst.count(V + '<') + lst.count(F + '<')
        for n in ((2,) if tier == 'quick' else (1, 2, 3)):
            if ns >= 2 and n == 3: continue
            obs.append(layout_ob(prop, lid, lst, nelem=n, reserved=int(reserved), maxspan=(65535 if tier == 'quick' or ns < 2 else 255)))
    # shaped lists: [span of small objects / low alignment][plain whose size is a multiple of the later alignment][aligned field].
    # This is the shape on which the compile-time trailing-alignment bookkeeping decides whether a run-time alignment is skipped.
    shapes = []
    for ka in 'VF':
        for (sa, aa) in [(2, 1), (1, 1), (4, 2), (1, 4)]:
            for (sb, ab) in [(16, 1), (12, 1), (4, 1), (16, 2)]:
                for (kc, sc, ac) in [('P', 4, 8), ('P', 4, 16), ('F', 2, 8), ('P', 2, 4)]:
                    shapes.append((((ka, sa, aa), ('P', sb, ab), (kc, sc, ac)), 'usize'))
    random.Random(3).shuffle(shapes)
    # tail shapes: [plain that ends on a storage-aligned offset][span of small objects as the LAST parameter] - the stride /
    # trailing padding of the element is decided by the end of the span
    tails = []
    for (sp, ap) in [(4, 8), (4, 16), (16, 8), (2, 4)]:
        for ks in 'FV':
            for (ss, as_) in [(2, 1), (1, 1), (4, 2), (12, 1)]:
                tails.append(((('P', sp, ap), (ks, ss, as_)), 'usize'))
    random.Random(4).shuffle(tails)
    # [varying span of small objects][plain AlignAs 8/16][span of 16-byte objects, alignment 1, LAST]: whether the next element start is
    # re-aligned at run time is decided from the compile-time trailing alignment of that last span
    for (sa, aa) in ([(4, 1), (2, 1)] if tier == 'quick' else [(4, 1), (2, 1), (1, 1), (4, 2)]):
        for (sp, ap) in [(4, 8), (4, 16)]:
            tails.append(((('V', sa, aa), ('P', sp, ap), ('F', 16, 1)), 'usize'))
    # packed 8-byte objects: [AlignAs 8]? [u32]? [8-byte objects of alignment 1 or 8 as plain / fixed / varying with a 4- or 8-byte count]
    # [AlignAs 8 | u32]? - parameters that start or end on a 4-aligned offset inside an 8-aligned bracket, where the padding in front
    # of the next aligned field (or the next element) is neither always 0 nor always needed
    U32, P8, A8 = ('P', 4, 1), ('P', 8, 1), ('P', 8, 8)
    packed = [((A8, ('V', 8, 1)), 'u32'), ((('V', 8, 1), A8), 'u32'), ((U32, P8, A8), 'usize'), ((A8, ('V', 8, 8), U32, P8), 'usize'),
              ((('V', 8, 8), U32), 'u32'), ((U32, ('F', 8, 1), A8), 'usize'),
              # spans of 12-byte objects (not a power of two): an odd count ends 4 mod 8 behind an 8-aligned start
              ((A8, ('F', 12, 1), A8), 'usize'), ((('V', 8, 8), P8, ('F', 12, 1)), f'{A}<usize,8>'),
              # a span of intermediate alignment (1 < B < largest alignment of the list) behind a small, highly aligned field
              ((('P', 2, 16), ('F', 4, 4)), 'usize'), ((('P', 1, 32), ('F', 2, 8), ('F', 4, 1)), 'usize'), ((('P', 2, 16), ('V', 4, 4)), 'usize')]
    if tier == 'thorough':
        for pre in ((), (A8,)):
            for lead in ((), (U32,)):
                for mid, cnt in [(P8, 'usize'), (('F', 8, 1), 'usize'), (('V', 8, 1), 'u32'), (('V', 8, 1), 'usize'), (('V', 8, 8), 'u32'), (('F', 8, 8), 'usize')]:
                    for post in ((), (A8,), (U32,), (U32, P8)):
                        c = (pre + lead + (mid,) + post, cnt)
                        if len(c[0]) >= 2 and c not in packed: packed.append(c)
    # lists without spans have no symbolic sizes: many elements are cheap, and a stride that is not a multiple of the element alignment
    # only makes elements overlap after several of them
    for nm, lst in (('P1', LISTS['P1']), ('P2', LISTS['P2']), ('P3', f'u16, {A}<u32,4>, u8, u32'), ('P4', f'u8, {A}<u16,2>, u8, u16')):
        obs.append(layout_ob(prop, nm, lst, nelem=8, reserved=int(reserved)))
    obs.append(layout_ob(prop, 'P3F', f'u16, {A}<u32,4>, u8, {F}<u32>', nelem=6, reserved=int(reserved)))
    # default-constructed vectors that are reserve()d afterwards (plain lists, and FixedSize lists with all fixed sizes 0)
    if not reserved:
        for nm, lst in (('P2', LISTS['P2']), ('P3', f'u16, {A}<u32,4>, u8, u32'), ('P5', f'{A}<u64,8>, u8'), ('P6', f'{A}<Bs<16>,16>, u8'), ('F1', LISTS['F1'])):
            obs.append(layout_ob(prop, nm, lst, nelem=4, reserved=2))
    for combo, cnt in packed:
        obs.append(layout_ob(prop, family_name(combo, cnt), family_list(combo, cnt), nelem=(3 if not any(k == 'V' for k, _, _ in combo) else 2), reserved=int(reserved)))
    for combo, cnt in (tails[:8] + [t for t in tails if len(t[0]) == 3] if tier == 'quick' else tails):
        obs.append(layout_ob(prop, family_name(combo, cnt), family_list(combo, cnt), nelem=(3 if combo[1][0] == 'F' else 2), reserved=int(reserved)))
    for combo, cnt in (shapes[:14] if tier == 'quick' else shapes):
        obs.append(layout_ob(prop, family_name(combo, cnt), family_list(combo, cnt), nelem=2, reserved=int(reserved)))
    fam = family()
    rng = random.Random(1 if tier == 'quick' else seed)    # the quick selection is fixed, the thorough one follows VERIF_SEED
    rng.shuffle(fam)
    want = 10 if tier == 'quick' else 160
    for combo, cnt in fam:
        if want == 0: break
        ns = sym_spans(combo)
        if ns > 2 or (tier == 'quick' and ns > 1 and any(s == 12 for _, s, _ in combo)): continue   # >= 3 symbolic spans: no verdict within budget (DESIGN 3.6)
        if not any(k == 'V' for k, _, _ in combo) and rng.random() < 0.5: continue
        obs.append(layout_ob(prop, family_name(combo, cnt), family_list(combo, cnt), nelem=2, reserved=int(reserved)))
        want -= 1
    return dedup(obs)


# ---- per property plans ---------------------------------------------------------------------------------------------
def c01(tier, seed):
    obs = pool_seq('C01', CORE + (['M2', 'V4', 'V5', 'V6'] if tier == 'thorough' else []), tier)
    if tier == 'quick': obs += pool_seq('C01', ['V6'], tier, ops_filter=['OP_ERASE', 'OP_ERASE_RANGE', 'OP_RESERVE'])
    return obs


def c02(tier, seed):
    obs = pool_layout('C02', tier, seed)
    obs += pool_seq('C02', CORE if tier == 'thorough' else ['V1', 'V2', 'M1', 'F2', 'N2'], tier, ops_filter=None if tier == 'thorough' else ['OP_ERASE', 'OP_RESERVE', 'OP_EMPLACE', 'OP_CLEAR'])
    obs += pool_copy('C02', ['V2', 'F1'] if tier == 'quick' else TRIVIAL, tier, ops=['OP_COPY_ASSIGN', 'OP_MOVE_ASSIGN'], akinds=('st-ne', 'prop-ne'))
    # emplace_back from sources whose item size differs from the stored type's (a byte copy of the source would leave the span)
    for pair in (10, 11, 2, 6, 7):
        for form in ((1, 4, 9) if tier == 'quick' else (1, 2, 3, 4, 5, 9, 10)):
            for varying in (0, 1):
                if varying and form >= 9: continue
                obs.append(dict(prop='C02', name=f"emplace/p{pair}/f{form}/{'vary' if varying else 'fixed'}", harness='h_emplace.cpp',
                                defines=[f'-DPAIR={pair}', f'-DFORM={form}', f'-DVARYING={varying}'], entry='h_entry', cfg=dict(slack='min', budget_s=600)))
    return obs


def c03(tier, seed):
    obs = pool_layout('C03', tier, seed)
    al = ['P2', 'F2', 'V2', 'V3', 'M1', 'M2', 'V5']
    obs += pool_seq('C03', al, tier, ops_filter=['OP_ERASE', 'OP_RESERVE', 'OP_ERASE_RANGE'] if tier == 'quick' else None)
    obs += pool_copy('C03', al if tier == 'thorough' else ['V2', 'F2', 'M1'], tier, akinds=('st-ne',), ops=['OP_COPY_CTOR', 'OP_COPY_ASSIGN', 'OP_MOVE_ASSIGN', 'OP_SWAP'])
    return obs


def c04(tier, seed):
    obs = pool_layout('C04', tier, seed)
    obs += pool_seq('C04', ['V1', 'V3', 'M1', 'M2', 'F2', 'V5'] if tier == 'quick' else CORE + ['M2', 'V5'], tier, ops_filter=['OP_ERASE', 'OP_RESERVE'] if tier == 'quick' else None)
    obs += pool_copy('C04', ['F1', 'F2', 'M1'] if tier == 'quick' else ['F1', 'F2', 'M1', 'N1', 'N3', 'V1'], tier, akinds=('ae', 'st-ne'), ops=['OP_SWAP', 'OP_MOVE_ASSIGN', 'OP_COPY_ASSIGN'])
    for o in obs:
        if o['harness'] in ('h_seq.cpp', 'h_copy.cpp'): o['also'] = {'C01': 'C04', 'C09': 'C04'}   # span counts / get_fixed_size / field placement are C04's clauses
    return obs


def c05(tier, seed):
    obs = pool_layout('C05', tier, seed)
    lists = ['F1', 'V1', 'V2', 'M1'] if tier == 'quick' else TRIVIAL + ['N1', 'N2']
    obs += pool_copy('C05', lists, tier, akinds=('ae', 'st-ne', 'prop-ne') if tier == 'quick' else tuple(ALLOC_KINDS))
    obs += pool_seq('C05', ['V1', 'V2', 'F1', 'M1', 'V4'] if tier == 'quick' else TRIVIAL + ['V4'], tier, ops_filter=['OP_RESERVE'])
    obs += pool_seq('C05', ['V1', 'V3', 'N2', 'F2'] if tier == 'quick' else CORE, tier, ops_filter=['OP_ERASE', 'OP_ERASE_RANGE', 'OP_POP'])
    return obs


def c06(tier, seed):
    obs = pool_seq('C06', NONTRIVIAL, tier)
    obs += pool_seq('C06', ['S1', 'S2'], tier, ops_filter=None if tier == 'thorough' else ['OP_RESERVE', 'OP_ERASE'])
    obs += pool_elem('C06', NONTRIVIAL + ['N4'], akinds=('ae', 'st-ne', 'prop-ne'))
    obs += [ref_ob('C06', lid, part) for lid in NONTRIVIAL for part in (2, 4)]
    obs += pool_copy('C06', NONTRIVIAL, tier, akinds=('ae', 'st-ne') if tier == 'quick' else tuple(ALLOC_KINDS))
    # "destroyed exactly once" also when an allocation inside an assignment fails (the harness and fault schedule of C17)
    for lid in NONTRIVIAL:
        for op in ('OP_ELEM_ASSIGN', 'OP_COPY_ASSIGN', 'OP_MOVE_ASSIGN'):
            o = exc_ob(lid, op, 'st-ne', '0', 0); o['owner'] = 'C06'; o['also'] = {'C17': 'C06'}; obs.append(o)
    return obs


def c07(tier, seed):
    lists = ['F1', 'V1', 'N1', 'N2'] if tier == 'quick' else CORE
    obs = []
    for ak in (('ae', 'st-ne', 'prop-ne') if tier == 'quick' else tuple(ALLOC_KINDS)):
        obs += pool_copy('C07', lists, tier, akinds=(ak,))
    # select_on_container_copy_construction returning another instance: every block of the copy (storage and address table) comes from it
    obs += [copy_ob('C07', lid, 'OP_COPY_CTOR', akind='soccc-ne', aflags='AF_SOCCC', eq=0) for lid in (['V1', 'N2'] if tier == 'quick' else lists)]
    obs += pool_seq('C07', lists, tier, aflags='0')
    obs += pool_elem('C07', ['V1', 'N2', 'F1', 'N1', 'U1'] if tier == 'quick' else ['F1', 'V1', 'M1', 'N1', 'N2', 'P2', 'U1'])  # U1: the only list kind whose element block is reused in place
    return obs


def c08(tier, seed):
    obs = []
    lists = ['F1', 'V1', 'N1'] if tier == 'quick' else ['F1', 'V1', 'N1', 'N2', 'P2', 'M1']
    combos = []
    for pocca in (0, 1):
        for pocma in (0, 1):
            for pocs in (0, 1):
                for soccc in (0, 1):
                    fl = '|'.join([x for x, on in (('AF_POCCA', pocca), ('AF_POCMA', pocma), ('AF_POCS', pocs), ('AF_SOCCC', soccc)) if on]) or '0'
                    combos.append((f"c{pocca}m{pocma}s{pocs}o{soccc}", fl))
    for lid in lists:
        for nm, fl in combos:
            for eq in (0, 1):
                for op in ('OP_COPY_CTOR', 'OP_COPY_ASSIGN', 'OP_MOVE_ASSIGN', 'OP_SWAP'):
                    if op == 'OP_COPY_CTOR' and eq: continue
                    if tier == 'quick' and lid != 'V1' and (('o1' in nm) or eq): continue
                    obs.append(copy_ob('C08', lid, op, akind=f"{nm}{'eq' if eq else 'ne'}", aflags=fl, eq=eq, ka=(1 if tier == 'quick' else 2), kb=1))
        obs.append(copy_ob('C08', lid, 'OP_COPY_ASSIGN', akind='ae'))
        obs.append(copy_ob('C08', lid, 'OP_MOVE_ASSIGN', akind='ae'))
    # elements: construction / assignment / swap under every propagation combination
    for lid in (['V1', 'N2', 'F1'] if tier == 'quick' else ['F1', 'V1', 'M1', 'N1', 'N2', 'P2']):
        for nm, fl in combos:
            if 'o1' in nm: continue
            for op in ELEM_OPS:
                if tier == 'quick' and op in ('OP_FROM_REF', 'OP_TO_REF'): continue
                obs.append(elem_ob('C08', lid, op, akind=nm, aflags=fl))
    return dedup(obs)


def c09(tier, seed):
    obs = pool_copy('C09', CORE, tier, akinds=('ae', 'st-ne', 'prop-ne') if tier == 'quick' else tuple(ALLOC_KINDS))
    for o in obs:
        # swap exchanges the complete contents: memory_consumption() and the recorded block size belong to them (assertions 810-813
        # are C05's footprint clause everywhere else)
        if '-DOP=OP_SWAP' in o['defines']: o['also'] = {'C05': 'C09'}
    # a copy constructed through select_on_container_copy_construction owns all of its blocks through the selected instance
    obs += [copy_ob('C09', lid, 'OP_COPY_CTOR', akind='soccc-ne', aflags='AF_SOCCC', eq=0) for lid in (['V1', 'N2', 'F1'] if tier == 'quick' else CORE)]
    return obs


def c10(tier, seed):
    obs = pool_seq('C10', CORE, tier, ops_filter=['OP_RESERVE'])
    sp = pool_seq('C10', ['S1', 'S2'], tier, ops_filter=['OP_RESERVE'])
    for o in sp: o['also'] = {'C06': 'C10'}     # an address-sensitive stored value that is relocated bitwise by reserve is a changed value
    obs += sp
    for lid in CORE:
        obs.append(seq_ob('C10', lid, ['OP_RESERVE', 'OP_RESERVE', 'OP_PROBE'], k0=2, smax=(1 if lid in TWO_SPAN else None)))
        if lid not in TWO_SPAN or tier == 'thorough':
            obs.append(seq_ob('C10', lid, ['OP_RESERVE', 'OP_PROBE', 'OP_PROBE', 'OP_PROBE'], k0=1, smax=(1 if lid in TWO_SPAN else None)))
    # Mode A on a reserved (not freshly constructed) vector
    for lid in (['P2', 'F1', 'V1', 'V2'] if tier == 'quick' else TRIVIAL):
        lst = LISTS[lid]
        ns = lst.count(V + '<') + lst.count(F + '<')
        obs.append(layout_ob('C10', lid, lst, nelem=2, reserved=1, maxspan=(64 if tier == 'quick' or ns >= 2 else 65535)))
    if tier == 'thorough':
        obs += [o for o in pool_layout('C10', 'quick', seed, reserved=True) if o['list'] not in TRIVIAL]
    return dedup(obs)


def c16(tier, seed):
    obs = pool_seq('C16', CORE if tier == 'thorough' else ['P2', 'F1', 'V1', 'V3', 'M1', 'N1', 'N2'], tier)
    cp = pool_copy('C16', ['F1', 'V1', 'N2'] if tier == 'quick' else CORE, tier, akinds=('ae', 'prop-ne'), ops=['OP_SWAP', 'OP_MOVE_CTOR', 'OP_MOVE_ASSIGN', 'OP_SELF'])
    # stateful allocators without propagation: move construction takes the allocator along (nothing to compare), move assignment between
    # equal instances transfers ownership
    cp += pool_copy('C16', ['F1', 'V1', 'N2'] if tier == 'quick' else CORE, tier, akinds=('st-ne',), ops=['OP_MOVE_CTOR'])
    cp += pool_copy('C16', ['F1', 'V1', 'N2'] if tier == 'quick' else CORE, tier, akinds=('st-eq',), ops=['OP_MOVE_ASSIGN', 'OP_SWAP'])
    # propagate_on_container_swap alone: swap exchanges the allocators together with the blocks, nothing else does
    cp += [copy_ob('C16', lid, 'OP_SWAP', akind='pocs-ne', aflags='AF_POCS', eq=0) for lid in (['F1', 'V1', 'N2'] if tier == 'quick' else CORE)]
    for o in cp: o['also'] = {'C09': 'C16'}     # "exchange ownership": the contents after swap / move are part of C16's claim
    return obs + cp


REF_LISTS = ['N3', 'P2', 'F2', 'M1', 'N1', 'N2', 'V1', 'F1']


def ref_ob(prop, lid, part, k0=3):
    d = [f'-DLIST={LISTS[lid]}', f'-DPART={part}', f'-DK0={k0}']
    if lid in TWO_SPAN: d.append('-DSMAX=1')
    return dict(prop=prop, name=f"ref/{lid}/part{part}/k{k0}", harness='h_ref.cpp', defines=d, entry='h_entry', cfg=dict(slack='min', budget_s=900), list=lid)


def c11(tier, seed):
    obs = []
    for lid in REF_LISTS + (['V3', 'V2', 'P1'] if tier == 'thorough' else []):
        for part in (1, 2, 3, 4):
            obs.append(ref_ob('C11', lid, part, k0=(2 if part == 1 and tier == 'quick' else 3)))
    for lid in ('A1', 'A2'):       # assignment kinds that differ in triviality
        obs.append(ref_ob('C11', lid, 2))
    # long trivially assignable / swappable runs (4 + 4n bytes, n = 0..15: includes 32 and 64 bytes)
    for part in (2, 4):
        o = ref_ob('C11', 'R1', part, k0=2)
        o['defines'].append('-DSMAX=15'); o['name'] += '/s15'
        obs.append(o)
    return obs


ELEM_OPS = ['OP_FROM_REF', 'OP_ELEM_CTOR', 'OP_ELEM_ASSIGN', 'OP_ELEM_SWAP', 'OP_TO_REF']


def elem_ob(prop, lid, op, akind='ae', aflags=None):
    fl = aflags if aflags is not None else ALLOC_KINDS[akind][0]
    d = [f'-DLIST={LISTS[lid]}', f'-DOP={op}', f'-DAFLAGS=({fl})']
    if lid in TWO_SPAN: d.append('-DSMAX=1')
    if prop == 'C12' and op == 'OP_ELEM_ASSIGN': d.append('-DTWO_ASSIGN=1')  # two assignments in a row to the same target
    return dict(prop=prop, name=f"elem/{lid}/{akind}/{op[3:].lower()}", harness='h_elem.cpp', defines=d, entry='h_entry', cfg=dict(slack='min', budget_s=900), list=lid)


def pool_elem(prop, lists, akinds=('ae', 'st-ne', 'prop-ne')):
    return [elem_ob(prop, lid, op, ak) for lid in lists for ak in akinds for op in ELEM_OPS]


def c12(tier, seed):
    return pool_elem('C12', CORE + ['V4', 'N4', 'U1'], akinds=('ae', 'st-ne', 'prop-ne') if tier == 'quick' else tuple(ALLOC_KINDS))


def cmp_ob(prop, lid, part, domain=0, smax=None, kv=2, indep=False):
    d = [f'-DLIST={LISTS[lid]}', f'-DPART={part}', f'-DDOMAIN={domain}', f'-DKV={kv}']
    if smax is not None: d.append(f'-DSMAX={smax}')
    if indep: d.append('-DINDEP_FIXED')
    return dict(prop=prop, name=f"cmp/{lid}/part{part}/d{domain}" + (f"/kv{kv}" if kv != 2 else '') + ('/indep' if indep else ''), harness='h_cmp.cpp', defines=d, entry='h_entry', cfg=dict(slack='min', budget_s=1200), list=lid)


def attribute_cmp(aid):
    if aid == 9101: return 'C07'
    return 'C13' if aid < 300 else 'C14'


ATTR['h_cmp.cpp'] = attribute_cmp


def c13(tier, seed):
    lists = ['E1', 'E2', 'E3', 'E4', 'G1', 'G2', 'P2', 'V1', 'FL1', 'FL2', 'FL3', 'FL4', 'G3', 'G5'] + ([] if tier == 'quick' else ['E5', 'F2', 'M1', 'N1', 'G4'])
    obs = []
    for lid in lists:
        obs.append(cmp_ob('C13', lid, 1, smax=(1 if lid in TWO_SPAN else None)))
        obs.append(cmp_ob('C13', lid, 2, smax=(1 if (tier == 'quick' and lid != 'E3') or lid in TWO_SPAN or lid in ('FL4', 'G3') else None), kv=2))   # E3 at spans 0..2: witness of KF-eq-shape
    return obs


def c14(tier, seed):
    lists = ['E1', 'E3', 'E5', 'G1', 'G2'] + ([] if tier == 'quick' else ['E2', 'E4', 'P1', 'F1'])
    obs = []
    for lid in lists:
        obs.append(cmp_ob('C14', lid, 3, domain=3, smax=1))
        obs.append(cmp_ob('C14', lid, 4, domain=3, smax=1))
        if tier == 'thorough':
            obs.append(cmp_ob('C14', lid, 3, domain=0, smax=1))
    # full-width values: byte order differs from numeric order for multi-byte and signed types
    obs.append(cmp_ob('C14', 'S16', 4, domain=0, smax=1))
    # vectors whose fixed sizes differ (0 vs. 1): an empty memcmp run on one side only
    for lid in ('S16', 'E3', 'FF'):
        obs.append(cmp_ob('C14', lid, 4, domain=3, smax=1, kv=1, indep=True))
    if tier == 'thorough':
        obs.append(cmp_ob('C14', 'E3', 4, domain=0, smax=1, kv=1))
    return obs


def attribute_exc(aid):
    if aid in (9100, 297) or 9001 <= aid <= 9019: return 'C17'
    if aid in (9101, 9201, 9210): return 'C17'
    return 'C17'


def attribute_empty(aid):
    if aid % 100 == 99 and aid < 9000: return 'C05'
    if aid == 9100 or 9001 <= aid <= 9019: return 'C06'
    if aid == 9101: return 'C07'
    loc = aid % 100
    if loc == 96: return 'C03'
    if loc == 97: return 'C06'
    if loc == 98: return 'C04'
    return 'C18'


def attribute_const(aid):
    if aid % 100 == 99 and aid < 9000: return 'C05'
    if aid == 9100 or 9001 <= aid <= 9019: return 'C06'
    if aid == 9101: return 'C07'
    return 'C19'


def attribute_emplace(aid):
    if aid == 9101: return 'C07'
    return 'C15'


ATTR['h_exc.cpp'] = attribute_exc
ATTR['h_empty.cpp'] = attribute_empty
ATTR['h_const.cpp'] = attribute_const
ATTR['h_emplace.cpp'] = attribute_emplace

EXC_OPS = ['OP_CONSTRUCT', 'OP_RESERVE', 'OP_COPY_CTOR', 'OP_COPY_ASSIGN', 'OP_MOVE_ASSIGN', 'OP_ELEM_CTOR', 'OP_ELEM_ASSIGN']


def exc_ob(lid, op, akind, fl, eq):
    d = [f'-DLIST={LISTS[lid]}', f'-DOP={op}', f'-DAFLAGS=({fl})', f'-DEQ_IDS={eq}']
    if lid in TWO_SPAN: d.append('-DSMAX=1')
    return dict(prop='C17', name=f"exc/{lid}/{akind}/{op[3:].lower()}", harness='h_exc.cpp', defines=d, entry='h_entry', exceptions=True,
                cfg=dict(slack='min', budget_s=900), list=lid, owner='C17')


def c17(tier, seed):
    obs = []
    lists = ['F1', 'V1', 'N1', 'N2', 'P2', 'M1', 'N3', 'V2'] + ([] if tier == 'quick' else ['P1', 'F2', 'V3', 'V4'])
    kinds = [('st-ne', '0', 0), ('st-eq', '0', 1), ('ae', 'AF_ALWAYS_EQUAL', 0), ('prop-ne', 'AF_POCCA|AF_POCMA|AF_POCS', 0)]
    if tier == 'thorough':
        kinds += [('pocca-ne', 'AF_POCCA', 0), ('pocma-ne', 'AF_POCMA', 0), ('prop-eq', 'AF_POCCA|AF_POCMA|AF_POCS', 1), ('soccc-ne', 'AF_SOCCC', 0)]
    for lid in lists:
        for ak, fl, eq in kinds:
            for op in EXC_OPS:
                if eq and op in ('OP_CONSTRUCT', 'OP_RESERVE', 'OP_COPY_CTOR', 'OP_ELEM_CTOR'): continue
                obs.append(exc_ob(lid, op, ak, fl, eq))
    return obs


def c18(tier, seed):
    obs = []
    for lid in CORE + ['S16', 'FF']:
        for lo in (0, 2, 4, 6):      # the eight follow-up operations, two per obligation
            d = [f'-DLIST={LISTS[lid]}', f'-DWHAT_LO={lo}', f'-DWHAT_HI={lo + 2}'] + (['-DSMAX=1'] if lid in TWO_SPAN else [])
            obs.append(dict(prop='C18', name=f"empty/{lid}/w{lo}", harness='h_empty.cpp', defines=d, entry='h_entry', cfg=dict(slack='min', budget_s=900), list=lid))
    obs += pool_seq('C18', ['P1', 'F1', 'V1', 'V3', 'N1', 'N2'] if tier == 'quick' else CORE, tier, ops_filter=['OP_CLEAR', 'OP_ERASE_RANGE', 'OP_POP', 'OP_ERASE'])
    obs += [cmp_ob('C18', lid, 2, smax=1) for lid in (['E1', 'G2'] if tier == 'quick' else ['E1', 'E4', 'G1', 'G2', 'V1'])]
    # copying into an empty / fresh vector when an allocation of the copy fails: the target stays a usable empty vector (harness of C17)
    for lid in (['V1', 'N2', 'F1'] if tier == 'quick' else ['V1', 'N2', 'F1', 'M1', 'N1', 'V2']):
        o = exc_ob(lid, 'OP_COPY_ASSIGN', 'st-ne', '0', 0); o['owner'] = 'C18'; o['also'] = {'C17': 'C18'}; obs.append(o)
    return obs


def c19(tier, seed):
    obs = []
    for lid in CORE:
        for with_elem in (0, 1):
            d = [f'-DLIST={LISTS[lid]}', f"-DK0={2 if tier == 'quick' or lid in TWO_SPAN else 3}", f'-DWITH_ELEM={with_elem}'] + (['-DSMAX=1'] if lid in TWO_SPAN else [])
            obs.append(dict(prop='C19', name=f"const/{lid}/{'elem' if with_elem else 'vec'}", harness='h_const.cpp', defines=d, entry='h_entry',
                            cfg=dict(slack='min', budget_s=900), list=lid))
    for lid in (['V1', 'F1', 'N2'] if tier == 'quick' else CORE):
        d = [f'-DLIST={LISTS[lid]}', '-DK0=1', '-DWITH_ELEM=0', '-DAFLAGS=AF_SOCCC'] + (['-DSMAX=1'] if lid in TWO_SPAN else [])
        obs.append(dict(prop='C19', name=f"const/{lid}/vec-soccc", harness='h_const.cpp', defines=d, entry='h_entry', cfg=dict(slack='min', budget_s=900), list=lid))
    # fault schedule: the copy constructor of the k-th stored object throws while the shared vector is being copied / an element is
    # constructed from one of its references (-fexceptions); the clean-up of the copier must not write to the shared vector
    for lid in NONTRIVIAL:
        d = [f'-DLIST={LISTS[lid]}', '-DK0=2', '-DWITH_ELEM=0', '-DTR_THROWS']
        obs.append(dict(prop='C19', name=f"const/{lid}/throwing-copy", harness='h_const.cpp', defines=d, entry='h_entry', exceptions=True, cfg=dict(slack='min', budget_s=900), list=lid))
    return obs


EMPLACE_PAIRS = {13: 'Ms->Tn (converting move constructor not noexcept)', 1: 'u32->u32', 2: 'i32->u32', 3: 'u8->bool', 4: 'bool->u8', 5: 'ToColor->enum', 6: 'i32->float', 7: 'u64->double', 8: 'i32->W(int)',
                 9: 'Ms->Tm (move counting)', 10: 'u16->i32', 11: 'i32->u8', 12: 'float->float', 14: 'Ms->Tt (trivially copyable target, move counting)', 15: 'unscoped enum (1 byte) -> bool', 16: 'unscoped enum (1 byte) -> u8'}
EMPLACE_FORMS = {1: 'contiguous lvalue', 2: 'contiguous const lvalue', 3: 'contiguous rvalue', 4: 'C array', 5: 'std::array', 6: 'node range lvalue',
                 7: 'node range rvalue', 8: 'generated range', 9: 'pointer', 10: 'move_iterator', 11: 'forward iterator', 12: 'generated iterator',
                 13: 'reverse_iterator over an array', 14: 'segmented random-access iterator (deque-like)'}


def c15(tier, seed):
    obs = []
    for pair in EMPLACE_PAIRS:
        for form in EMPLACE_FORMS:
            for varying in (0, 1, 2):
                if varying and form >= 9: continue      # a VaryingSize argument must be a range
                d = [f'-DPAIR={pair}', f'-DFORM={form}', f'-DVARYING={varying}']
                obs.append(dict(prop='C15', name=f"emplace/p{pair}/f{form}/{('fixed', 'vary', 'vary-aligned')[varying]}", harness='h_emplace.cpp', defines=d, entry='h_entry',
                                cfg=dict(slack='min', budget_s=600)))
    return obs


PLANS = {'C15': c15, 'C17': c17, 'C18': c18, 'C19': c19, 'C13': c13, 'C14': c14, 'C11': c11, 'C12': c12, 'C01': c01, 'C02': c02, 'C03': c03, 'C04': c04, 'C05': c05, 'C06': c06, 'C07': c07, 'C08': c08, 'C09': c09, 'C10': c10, 'C16': c16}


def obligations(prop, tier, seed):
    obs = PLANS[prop](tier, seed)
    for o in obs: o['prop'] = prop
    return dedup(obs)


MODE_B = dict(elements_pre_state='0..3 (0..2 for lists with two spans), complete case split', span_length='0..2 objects (0..1 on two-span lists in some shapes), complete case split',
              capacity='0..4 symbolic', varying_byte_budget='0..64 symbolic', values='full width symbolic', erase_positions='complete case split',
              fresh_memory='every byte an unconstrained solver variable (junk)', block_base='aligned to exactly the storage alignment and no more',
              step_budget_per_path=400000, query_timeout_s='20 incremental + 300 fresh solver, then the obligation is inconclusive (exit 2)')
MODE_A = dict(elements='2 (1..3 in the thorough tier, 3 for all-fixed tail shapes)', span_length='0..65535 symbolic for lists with <= 1 symbolic span, 0..64 (thorough core lists 0..255) for 2 symbolic spans; '
              'lists with >= 3 symbolic spans are not run (no solver verdict within budget)', extra_budget='0..63 bytes symbolic', block_base='both residues: aligned to 2^24 and to exactly S',
              payload_memcpy='abstracted to its bounds check (count and plain fields are stored and re-loaded for real)',
              family='<= 3 payload parameters x {plain, FixedSize, VaryingSize} x object size {1,2,4,12,16} x AlignAs {1,2,4,8,16,32}; quick: 8 core lists + 14 shaped + 8 tail-shaped + 10 seeded members, '
                     'thorough: all 128 shaped + 32 tail-shaped + 160 seeded members')
SPECIFIC = {
    'C01': dict(histories='emplace^k ; op ; [emplace] ; op ; [emplace] (thorough: all 36 ordered pairs of operations)'),
    'C02': dict(mode_a=MODE_A, mode_b='BOUNDS checks on every path of the history and copy shapes'),
    'C03': dict(mode_a=MODE_A), 'C04': dict(mode_a=MODE_A), 'C05': dict(mode_a=MODE_A, allocator_kinds='always-equal, stateful unequal, propagating unequal (thorough: + equal instances)'),
    'C06': dict(lists='N1, N2, N3, N4 (instrumented non-trivial type Tr); S1, S2 (address-sensitive trivially destructible type Sp)', fault_schedule='assignments on N1-N3 with one failing allocation (harness of C17)'),
    'C07': dict(allocator_kinds='always-equal, stateful unequal, propagating unequal (thorough: + equal instances)'),
    'C08': dict(traits='all 16 combinations of POCCA/POCMA/POCS/SOCCC x equal/unequal instances on V1; reduced on F1/N1 in the quick tier', elements='source 0..1 (thorough 0..2), target 0..1'),
    'C09': dict(source='0..2 elements', target='0..1 elements (thorough 0..2)', moved_from_use='destroy / clear / copy-assign / swap / move-assign from a vector of another allocator instance (case split)'),
    'C10': dict(reserve_arguments='n 0..4 and b 0..64 symbolic, b >= payload stored', mode_a=MODE_A),
    'C11': dict(elements='1..3', algorithms='rotate(k), reverse, swap_ranges on 2..3 elements of equal field sizes', long_runs='list R1: fixed size 0..15 (runs of 4..64 bytes)', iterator_offsets='symbolic 64-bit within [0, size()]'),
    'C12': dict(vector='2 elements', element_sizes='both varying sizes 0..2 independent (smaller->larger and larger->smaller)'),
    'C13': dict(operands='references/elements: 1 element each; vectors: 0..2 elements each, independent fixed sizes', floats='no NaN (== is not reflexive for NaN)'),
    'C14': dict(value_domain='{0,1,2} per field (thorough additionally full width for part 3)', triples='3 elements / 3 vectors of 0..2 (third 0..1) elements, spans 0..1'),
    'C15': dict(lengths='0..2 items', pairs=EMPLACE_PAIRS if 'EMPLACE_PAIRS' in globals() else {}, forms=EMPLACE_FORMS if 'EMPLACE_FORMS' in globals() else {}),
    'C16': dict(allocator_kinds='always-equal, propagating unequal, stateful unequal (move construction), stateful equal (move assignment, swap), swap-only propagating unequal'), 'C17': dict(failing_allocations='at most one per run, position chosen by the solver (1st .. k-th)', vectors='capacity 0..2, 0..2 elements; target 0..1 elements'),
    'C18': dict(ways_to_be_empty=7, follow_up_operations=8, lists='core lists + S16, FF (FixedSize spans only: elements of zero bytes)'), 'C19': dict(shared='vector of 0..2 (thorough 0..3) elements + second vector; a const element', fault_schedule='k-th copy construction of a stored Tr throws (k = 1..4) while the shared vector is copied / an element is constructed from its reference'),
}


def bounds(prop, tier):
    b = dict(MODE_B)
    b.update(SPECIFIC.get(prop, {}))
    b['lists'] = {k: v for k, v in LISTS.items()}
    return b


def assumptions(prop):
    return ["clang 14 -O1 IR is the semantics of the source (users build with g++ -O2; differential runs use g++ -O1)",
            "llsym executor and z3 5.1 (cvc5 re-decides a sample in the thorough tier)",
            "libstdc++ 12 as compiled into the IR", "harness reference model (tuple sequence)",
            "allocator returns memory aligned to exactly alignof(value_type); no fancy pointers",
            "operation arguments respect the documented preconditions (verif_assume in the harness)"]
