"""Obligation plan: which harness x configuration x shape is run for which property and tier, and how a violation
found by the engine is attributed to a property. See DESIGN.md sections 5 and 6."""
import random

A = 'cntgs::AlignAs'
F = 'cntgs::FixedSize'
V = 'cntgs::VaryingSize'

LISTS = {
    'P1': 'u32, u8, u16',
    'P2': f'u8, {A}<u32,8>, u16, {A}<u64,4>',
    'F1': f'u16, {F}<u32>, u8',
    'F2': f'{F}<{A}<u8,8>>, {A}<u32,16>, {F}<u16>',
    'V1': f'u16, {A}<usize,8>, {V}<u32>, u8',
    'V2': f'u16, {A}<usize,8>, {V}<{A}<u32,16>>, u8, {A}<u32,4>',
    'V3': f'usize, {V}<u8>, {A}<usize,8>, {V}<{A}<u16,4>>, u8',
    'M1': f'{F}<u16>, u32, {A}<usize,8>, {V}<{A}<u32,8>>',
    'N1': f'{F}<Tr>, Tr',
    'N2': f'{A}<usize,8>, {V}<Tr>, Tr',
    'N3': f'u32, {F}<Tr>, u16, Tr, u8',
    'E1': 'u8, u8',
    'E2': f'u8, {A}<u32,4>',
    'E3': f'{F}<u8>, u16',
    'E4': f'usize, {V}<u8>',
    'E5': f'u8, {A}<u8,4>',
    'G1': f'Cm, {F}<Cm>',
    'G2': f'usize, {V}<Cm>',
}
TWO_SPAN = {'F2', 'V3', 'M1'}
TRIVIAL = ['P1', 'P2', 'F1', 'F2', 'V1', 'V2', 'V3', 'M1']
NONTRIVIAL = ['N1', 'N2', 'N3']
CORE = TRIVIAL + NONTRIVIAL
HAS_VARY = {'V1', 'V2', 'V3', 'M1', 'N2', 'E4', 'G2'}

# ---- attribution of an engine violation to a property ---------------------------------------------------------------
KIND_PROP = {
    'BOUNDS': 'C02', 'OVERLAP': 'C02', 'ALIGN': 'C03', 'ASSERT': 'C03', 'LEDGER': 'C07', 'FOREIGN-ALLOC': 'C07',
    'LIFETIME': 'C06', 'CLOBBER': 'C06', 'TERMINATE': 'C17', 'EXC': 'C17', 'RACE-WRITE': 'C19',
    'UNREACHABLE': 'C02', 'TRAP': 'C02', 'ASSUME': 'C02',
}


def attribute_seq(aid):
    """h_seq.cpp assertion ids"""
    if aid in (9100,) or 9001 <= aid <= 9009: return 'C06'
    if aid == 9101: return 'C07'
    loc = aid % 100
    if loc in (7, 8, 95): return 'C02'
    if loc == 9: return 'C18'
    if 90 <= loc <= 92: return 'C16'
    return 'C01'


ATTR = {'h_seq.cpp': attribute_seq}


def attribute(ob, viol):
    k = viol['kind']
    if k == 'PROP':
        f = ATTR.get(ob['harness'])
        p = f(viol['assert_id']) if f else ob.get('prop')
        ov = ob.get('attr_override')
        if ov and p in ov: p = ov[p]
        return p
    if k == 'LEDGER' and 'unequal allocator' in viol['msg']: return 'C08'
    return KIND_PROP.get(k, ob.get('prop'))


# ---- obligations ----------------------------------------------------------------------------------------------------
def seq_ob(prop, lid, ops, k0=None, aflags='AF_ALWAYS_EQUAL', extra=(), cfg=None, name=None, smax=None):
    two = lid in TWO_SPAN
    if k0 is None: k0 = 2 if two else 3
    d = [f'-DLIST={LISTS[lid]}', f'-DOPS={",".join(ops)}', f'-DK0={k0}', f'-DAFLAGS={aflags}'] + list(extra)
    if smax is not None: d.append(f'-DSMAX={smax}')
    c = dict(slack='min', budget_s=900)
    if cfg: c.update(cfg)
    return dict(prop=prop, name=name or f"seq/{lid}/k{k0}/{'+'.join(o[3:].lower() for o in ops)}", harness='h_seq.cpp', defines=d,
                entry='h_entry', cfg=c, list=lid)


SINGLE_OPS = ['OP_EMPLACE', 'OP_POP', 'OP_ERASE', 'OP_ERASE_RANGE', 'OP_CLEAR', 'OP_RESERVE']
QUICK_PAIRS = [('OP_ERASE', 'OP_PROBE'), ('OP_RESERVE', 'OP_PROBE'), ('OP_CLEAR', 'OP_PROBE'), ('OP_ERASE', 'OP_ERASE'),
               ('OP_POP', 'OP_PROBE'), ('OP_ERASE_RANGE', 'OP_PROBE')]


def c01(tier, seed):
    obs = []
    for lid in CORE:
        for op in SINGLE_OPS: obs.append(seq_ob('C01', lid, [op, 'OP_PROBE'] if op in ('OP_RESERVE',) else [op]))
        for a, b in QUICK_PAIRS: obs.append(seq_ob('C01', lid, [a, b, 'OP_PROBE'] if b != 'OP_PROBE' else [a, b]))
        if tier == 'thorough':
            for a in SINGLE_OPS:
                for b in SINGLE_OPS:
                    obs.append(seq_ob('C01', lid, [a, 'OP_PROBE', b, 'OP_PROBE'], k0=2))
    return dedup(obs)


def dedup(obs):
    seen = set(); out = []
    for o in obs:
        if o['name'] in seen: continue
        seen.add(o['name']); out.append(o)
    return out


PLANS = {'C01': c01}


def obligations(prop, tier, seed):
    return PLANS[prop](tier, seed)


def bounds(prop, tier):
    return dict(elements_pre_state='0..3 (0..2 for lists with two spans)', span_length='0..2 objects (complete case split)',
                capacity='0..4 symbolic', varying_byte_budget='0..64 symbolic', values='full width symbolic',
                step_budget_per_path=400000, lists={k: LISTS[k] for k in CORE})


def assumptions(prop):
    return ["clang 14 -O1 IR is the semantics of the source (users build with g++ -O2; differential runs use g++ -O1)",
            "llsym executor and z3 5.1 (cvc5 re-decides a sample in the thorough tier)",
            "libstdc++ 12 as compiled into the IR", "harness reference model (tuple sequence)",
            "allocator returns memory aligned to exactly alignof(value_type); no fancy pointers",
            "operation arguments respect the documented preconditions (verif_assume in the harness)"]
