#!/bin/bash
# Mutation self-test: for every seeded change under /verif/seeded/<id>/ apply it to /repo, run the quick check of the property it
# breaks (without touching the evidence files), expect exit 1 with a VIOLATION line, and undo the change straight afterwards.
# usage: bin/seeded_run.sh [id-pattern]     output: one line per seeded change, exit 0 iff every change was detected
cd /verif
pat=${1:-.}
fail=0
if ! git -C /repo diff --quiet; then echo "/repo has uncommitted changes - refusing"; exit 2; fi
for d in seeded/*/; do
  id=$(basename $d)
  echo "$id" | grep -qE "$pat" || continue
  prop=$(python3 -c "import json;print(json.load(open('$d/meta.json'))['breaks'])")
  if ! git -C /repo apply --check $PWD/$d/patch.diff 2>/dev/null; then echo "$id: patch does not apply to /repo HEAD"; fail=1; continue; fi
  git -C /repo apply $PWD/$d/patch.diff
  out=$(bin/check $prop --tier quick --no-evidence --no-diff 2>&1); rc=$?
  git -C /repo checkout -- .
  nviol=$(echo "$out" | grep -c '^VIOLATION')
  echo "$id: property=$prop exit=$rc violations=$nviol $(echo "$out" | grep -m1 -A1 '^VIOLATION' | tail -1 | cut -c1-160)"
  [ $rc -eq 1 ] || fail=1
done
exit $fail
