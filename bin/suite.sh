#!/bin/bash
# Builds /repo/_build (hooks guard off - there are no hooks) and runs the repository's test-suite; compares the passing test
# names with the 113 stable ones of /root/.vp/BASELINE.json. exit 0 iff none of them is missing.
set -u
cmake --build /repo/_build -j16 -- -k0 >/dev/null 2>&1
out=$(mktemp)
ctest --test-dir /repo/_build -j8 --timeout 900 --output-junit "$out" >/dev/null 2>&1
python3 - "$out" <<'PY'
import json, sys, xml.etree.ElementTree as ET
base = set(x[:(len(x) - 2) // 2] for x in json.load(open('/root/.vp/BASELINE.json'))['stable_pass'])  # ids are '<name>::<name>'
passed = set()
for tc in ET.parse(sys.argv[1]).getroot().iter('testcase'):
    st = (tc.get('status') or '').lower()
    if tc.find('failure') is None and tc.find('error') is None and st not in ('fail', 'failed', 'notrun', 'disabled', 'skipped') and tc.find('skipped') is None:
        passed.add(tc.get('name'))
failed = set(tc.get('name') for tc in ET.parse(sys.argv[1]).getroot().iter('testcase') if (tc.get('status') or '').lower() in ('fail', 'failed') or tc.find('failure') is not None)
missing = sorted((base - passed) | (base & failed))
print(f"baseline {len(base)} passed-now {len(base & passed - failed)} missing {len(missing)}")
for m in missing: print("  MISSING:", m)
sys.exit(1 if missing else 0)
PY
rc=$?
rm -f "$out"
exit $rc
