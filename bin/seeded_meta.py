#!/usr/bin/env python3
"""writes seeded/<id>/meta.json from the sub-agent's own meta (agent_meta.json) plus what was confirmed and detected here"""
import json, os, sys
VERIF = os.path.dirname(os.path.dirname(os.path.abspath(__file__)))
DET = {
 'C01-erase-range-end-marker': ('C01', ['C01 quick: seq/V1/k3/erase_range+probe assert 317 (field value after erase-range then emplace_back)']),
 'C02-trailing-padding-cap': ('C02', ['C02 quick: layout/V2/n2/s65535 BOUNDS store past the block (Mode A, spans 65519/65535), ASan heap-buffer-overflow on replay']),
 'C03-trailing-alignment-bracket': ('C03', ['C03 quick (after adding the shaped lists [span][plain multiple of A][AlignAs A] to the layout pool): ALIGN obligations from assume_aligned bundles; first version of the quick pool missed it (DESIGN 10)']),
 'C04-erase-end-marker-diff': ('C04', ['C04 quick: seq/*/erase assert x98 (element not inside [data_begin, data_end) / elements overlap) - added after the first run missed the containment clause', 'C01 quick: field values after erase + emplace_back']),
 'C05-reserve-stride': ('C05', ['C05 quick: seq/V1|V2|M1/reserve assert x93 (memory_consumption after reserve vs. a freshly constructed vector of the same capacity and budget) - assertion added for this clause']),
 'C06-copy-assign-order': ('C06', ['C06 quick: copy/N1|N2|N3/*/copy_assign LIFETIME "block deallocated while an object in it is still alive"']),
 'C07-move-assign-table-size': ('C07', ['C07 quick: copy/V1|N2/st-ne/move_assign LEDGER "deallocate size differs from allocate size"']),
 'C08-pocca-keep-block': ('C08', ['C08 quick: copy/*/c1*ne/copy_assign LEDGER "block allocated by allocator id 1 deallocated through unequal allocator id 2"']),
 'C09-move-assign-fixed-sizes': ('C09', ['C09 quick: copy/F1|F2|M1/st-ne/move_assign assert 304 (get_fixed_size after move assignment between vectors with different fixed sizes)']),
 'C10-relocate-whole-block': ('C10', ['C10/C02 quick: seq/N*/reserve BOUNDS memcpy dst past the new block (symbolic memcpy length: bounds decided symbolically, then case split) - the first run ended as "unsupported" (exit 2), fixed in the engine']),
 'C11-consecutive-index': ('C11', ['C11 quick: ref/N3/part2 asserts 261 (rvalue assignment must move every non-trivial field exactly once), 215/217; C06: CLOBBER + Tr self-pointer asserts. First run missed it for C11 because a CLOBBER/concrete assertion failure ended the path before the C11 assertions; both now continue']),
 'C12-elem-assign-inplace': ('C12', ['C12 quick: elem/V4/*/elem_assign assert 402 (span size after copy assignment between elements of equal byte size but different counts) - list V4 added for this shape']),
 'C13-equal-one-3iter': ('C13', ['C13 quick: cmp/E3/part1 assert 110 (prefix compares equal) and BOUNDS memcmp past the shorter element, ASan on replay']),
 'C14-lex-memcmp-length': ('C14', ['C14 quick: cmp/E1|E3/part3/part4 relational laws']),
 'C15-memcpy-swapped-args': ('C15', ['C15 quick: emplace/p3/f9/fixed assert 110 (u8 -> bool through a pointer keeps raw bytes)']),
 'C16-reserve-equal-capacity': ('C16', ['C16 quick: seq/*/reserve assert x90-x92 (reserve(n == capacity) allocates and moves the elements)']),
 'C17-move-assign-destruct-early': ('C17', ['C17 quick: exc/N2/st-ne/move_assign LIFETIME/ledger after the 2nd allocation fails']),
 'C18-default-ctor-size-not-stride': ('C18', ['C18 quick: empty/F2|P2 after default construction + reserve + two emplace_back']),
 'C01-reserve-shrinks-capacity': ('C01', ['C01 quick: seq/*/reserve+probe assert x03 (capacity() after reserve(n < capacity, more bytes)) and BOUNDS on the shrunken address table']),
 'C02-reserve-table-old-capacity': ('C02', ['C02 quick: seq/V*/reserve+probe... BOUNDS store past the address table block after reserve + emplace_back beyond the old capacity']),
 'C03-fixed-tail-padding-template-arg': ('C03', ['C03 quick: layout tail shapes [plain ending storage-aligned][FixedSize span last], 3 elements: ALIGN obligations / assert 31 (element start % S); tail shapes were added to the pool after reading this change']),
 'C06-move-assign-destructs-source': ('C06', ['C06 quick: copy/N*/st-ne/move_assign LIFETIME "destructor run on an object that is not alive" when the moved-from source is destroyed/cleared']),
 'C07-elem-move-assign-source-allocator': ('C07', ['C07 quick: elem/V1|N2/st-ne/elem_assign LEDGER "block allocated by allocator id 3 deallocated through unequal allocator id 4"']),
 'C08-move-assign-table-source-allocator': ('C08', ['C08 quick: copy/V1/*m0*ne/move_assign LEDGER unequal allocator (address table allocated through the source\'s allocator)']),
 'C09-fixed-locator-default-move': ('C09', ['C09 quick: copy/N1|N3/*/move_ctor BOUNDS wild pointer in clear() of the moved-from vector (reverts fix a161392)']),
 'C11-swap-ranges-block-tail': ('C11', ['C11 quick: ref/R1/part2|part4/s15 asserts 211/213 (swap of runs of exactly 32/64 bytes: FixedSize<u32> of 7 / 15); list R1 with fixed sizes up to 15 was added for long runs - the first pool (runs <= 24 bytes) could not see it']),
 'C12-elem-move-assign-units-truncation': ('C12', ['C12 quick: elem/V1/st-ne/elem_assign BOUNDS store past the 24-byte block (25-byte source kept in place)']),
 'C13-float-memcmp': ('C13', ['C13 quick: cmp/FL1|FL2/part1|part2 assert 110/210 (+0.0 vs -0.0); floating-point lists were added to the pool after this change showed that none was covered']),
 'C16-swap-keeps-fixed-sizes': ('C16', ['C16 quick: copy/F1/*/swap assert x04 (get_fixed_size after swap of vectors with different fixed sizes) - counted for C16 ("exchange ownership") as well as C09']),
 'C17-copy-assign-destruct-not-clear': ('C17', ['C17 quick: exc/N1/*/copy_assign assert 9210 (size() vs live objects after the allocation failed) - reverts fix 7cfdfbf']),
 'C04-swap-keeps-fixed-sizes': ('C04', ['C04 quick: copy/F1|F2|M1/*/swap inv asserts (get_fixed_size x04, span counts, containment x98) - copy/swap obligations were added to the C04 pool for the "count given at construction" clause']),
 'C05-plain-aligned-residue0-budget': ('C05', ['C05 quick: layout shapes with a FixedSize span followed by an aligned plain field: assert 12 (exact memory_consumption of a full vector without VaryingSize) and 11/13 (element start is the lowest aligned address)']),
 'C10-reserve-equal-capacity-regrows': ('C10', ['C10 quick: seq/*/reserve... assert x90-x92 (reserve(n == capacity()) must do nothing at all: allocation count and addresses)']),
 'C14-lex-run-end-first-field': ('C14', ['C14 quick: cmp/E1/part4 asserts 420/421 (vector < vs lexicographical_compare under the element-level <). MISSED by the first version: the KF-lt-partial exclusion swallowed it (DESIGN 10)']),
 'C15-rvalue-range-move-if-noexcept': ('C15', ['C15 quick: emplace/p13/f3|f7 asserts 121/122 (rvalue range of a type whose converting move constructor is not noexcept must still be moved from once per item); pair 13 was added for this']),
 'C18-swap-keeps-fixed-sizes': ('C18', ['C18 quick: empty/F1|F2|M1|N1|N3 case "swap with a non-empty vector" with independent fixed sizes (the partner used to get the same fixed sizes as the empty vector)']),
 'C19-copy-ctor-skips-soccc': ('C19', ['C19 quick: const/*/vec-soccc RACE-WRITE "allocation through allocator instance 1 of a shared container during a const operation"; also C08 quick assert 801. The allocator-instance freeze was added for this']),
 'C01-iterator-convert-assign-memory': ('C01', ['C01 quick: seq/*/reserve... BOUNDS load from the freed old block through a const_iterator variable re-seated with `cit = v.begin()` after reserve; C11 quick: ref/*/part1 cross-vector re-seating. Both re-seating steps were added after reading the report of this change (a harness that only uses begin()/end() cannot see it)']),
 'C02-memcpy-compatible-size-paren': ('C02', ['C02 quick: emplace/p11/f1|f4|f9 BOUNDS memcpy of 4-byte items into a 1-byte span (emplace obligations with size-changing integral pairs were added to the C02 pool); C15 quick: same obligations, assert 110']),
 'C03-align-first-parameter-segment': ('C03', ['C03 quick: layout/V3 (largest alignment behind the first VaryingSize parameter): ALIGN obligations on the second element']),
 'C05-erase-end-slot-no-diff': ('C05', ['C05 quick: seq/V1|V3/erase+probe assert x99 (element start is not the lowest aligned address after the previous element); the tight-packing assertion in Inv was added for the history shapes after reading the report']),
 'C06-elem-ext-move-steals-unequal': ('C06', ['C06 quick: elem/N*/prop-ne/elem_ctor LIFETIME "object constructed on top of a live object" (propagating unequal allocators joined the C06 element pool); C12 quick caught it unchanged']),
 'C07-pointer-move-assign-via-reset': ('C07', ['C07 quick: copy/*/prop-ne/move_assign LEDGER unequal allocator (reverts fix 3be7286)']),
 'C08-elem-swap-std-swap': ('C08', ['C08 quick: elem/V1|N2/c*m0s1*/elem_swap assert 801 + LEDGER (element swap between unequal propagating-on-swap allocators was added to the harness and the C08 pool)']),
 'C09-pocca-allocate-before-size': ('C09', ['C09 quick: copy/*/prop-ne/copy_assign BOUNDS / LEDGER size mismatch (prop-ne joined the C09 quick pool)']),
 'C11-iterator-convert-assign-locator': ('C11', ['C11 quick: ref/*/part1 asserts 300/391 after `cit = v.begin()` on a const_iterator that was bound to another vector (added after reading the report)']),
 'C12-pocca-allocate-before-size': ('C12', ['C12 quick: elem/V1|N2/prop-ne/elem_assign BOUNDS store past the too-small new block']),
 'C16-erase-through-temporary': ('C16', ['C16 quick: seq/N2/*/erase... assert x90 (erase allocates). MISSED while the KF-erase-overlap exclusion was applied to every property (DESIGN 10)']),
 'C17-pocca-branch-dangling-on-throw': ('C17', ['C17 quick: exc/*/prop-ne/copy_assign LEDGER double free / BOUNDS after the allocation in the propagating branch throws']),
 'C04-fixed-trailing-alignment-bracket': ('C04', ['C04 quick: seq/M2/*/erase... asserts x98 (element overlaps / leaves [data_begin, data_end)) after erase on list M2 = size_t, VaryingSize<u32>, AlignAs<u32,8>, FixedSize<u64>; MISSED by C04 before M2 joined its pool (C03 caught it through the new vtail layout shapes as misalignment)']),
 'C10-reserve-size-not-stride': ('C10', ['C10 quick: layout/V1|V2/n2/reserved BOUNDS store past the block of a reserved vector filled to its new limits; seq/*/reserve+probe...']),
 'C13-equal-bytecount-precheck': ('C13', ['C13 quick: cmp/FL4|G3/part2 asserts 210.. (vectors with identical elements, one reached through emplace_back + pop_back / erase of the last element); the history variant and the lists FL4/G3 were added for this - and exposed KF-cmp-history on the unchanged tree']),
 'C14-vector-lex-equality-memcmp-trait': ('C14', ['C14 quick: cmp/S16/part4/d0 asserts 420/421 (vector < vs lexicographical_compare under the element-level <, full-width u16 values); the full-width obligation was added for this (domain {0,1,2} cannot distinguish byte order from numeric order)']),
 'C15-copy-n-double-traversal': ('C15', ['C15 quick: emplace/*/f11|f12/fixed assert 131 (the source iterator is advanced more often than the parameter holds)']),
 'C18-erase-last-wrong-end-marker': ('C18', ['C18 quick: empty/V* way "emptied by repeated erase(begin())": assert x13 (data_begin() == data_end()); seq/V*/erase assert x09']),
 'C19-end-writes-spare-slot': ('C19', ['C19 quick: const/V*|M1|N2/vec RACE-WRITE store into the frozen address table during end()']),
 'C19-elem-copy-assign-moves': ('C19', ['C19 quick: const/N2/elem RACE-WRITE store into the frozen shared element during copy assignment from it - the shared-const-element part of the harness was added for this']),
}
for d, (prop, det) in DET.items():
    p = os.path.join(VERIF, 'seeded', d)
    if not os.path.isdir(p): continue
    am = {}
    if os.path.exists(os.path.join(p, 'agent_meta.json')):
        try: am = json.load(open(os.path.join(p, 'agent_meta.json')))
        except Exception: am = {}
    m = dict(id=d, breaks=prop, summary=am.get('summary', ''), needs=am.get('needs', ''),
             author='independent sub-agent: saw only the property text and its own scratch worktree of /repo, nothing from /verif',
             confirmed='bin/try_mutant.sh <worktree>: demo.cpp (g++ -std=c++17 -fsanitize=address,undefined) fails with the change and passes without it; ctest in the scratch worktree 227/229 = baseline',
             demo_build=am.get('demo_build', ''), detected_by=det,
             ran=f'git -C /repo apply seeded/{d}/patch.diff ; bin/check {prop} --tier quick ; git -C /repo checkout -- .   (equivalently VERIF_REPO_SRC=<worktree>/src bin/check {prop})')
    json.dump(m, open(os.path.join(p, 'meta.json'), 'w'), indent=1)
print('ok')
