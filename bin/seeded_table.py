#!/usr/bin/env python3
"""rewrites the table of seeded changes in DESIGN.md section 10 from seeded/*/meta.json"""
import json, os, glob
VERIF = os.path.dirname(os.path.dirname(os.path.abspath(__file__)))
rows = []
for d in sorted(glob.glob(os.path.join(VERIF, 'seeded', '*', 'meta.json'))):
    m = json.load(open(d))
    def cell(t, n): return (t or '').replace('|', '/').replace('\n', ' ')[:n]
    rows.append(f"| {m['id']} | {m['breaks']} | {cell(m.get('summary'), 150)} | {cell(' ; '.join(m.get('detected_by', [])), 420)} |")
p = os.path.join(VERIF, 'DESIGN.md'); s = open(p).read()
head = "| seeded change | breaks | what was changed | caught by |\n|---|---|---|---|\n"
i = s.index(head); j = s.index("\nstrengthening (each re-verified", i)
s = s[:i] + head + '\n'.join(rows) + '\n' + s[j:]
open(p, 'w').write(s)
print(len(rows), 'rows')
