#!/bin/bash
# usage: bin/try_mutant.sh <worktree> <props...>   e.g. bin/try_mutant.sh /tmp/wt-C01 C01 C02
# Confirms a seeded change (demo fails with it / passes without it, existing tests pass) in the scratch worktree and runs the
# given quick checks against the worktree's source tree (VERIF_REPO_SRC), without touching /repo or the evidence files.
wt=$1; shift
cd $wt || exit 2
build=$(python3 -c "import json;print(json.load(open('seeded_out/meta.json')).get('demo_build',''))" 2>/dev/null)
echo "--- tests with the change"
cmake --build _build -j8 -- -k0 >/dev/null 2>&1
ctest --test-dir _build -j8 2>&1 | grep -E "tests passed|Failed|Not Run" | head -6
echo "--- demo WITH the change"
g++ -std=c++17 -g -fsanitize=address,undefined -I$wt/src seeded_out/demo.cpp -o /tmp/demo_with_$$ 2>&1 | grep -E "error" | head -3
/tmp/demo_with_$$ > /tmp/demo_with_$$.out 2>&1; echo "exit=$?"; tail -3 /tmp/demo_with_$$.out
echo "--- demo WITHOUT the change"
git diff -- src > /tmp/mut_$$.diff; git checkout -q -- src
g++ -std=c++17 -g -fsanitize=address,undefined -I$wt/src seeded_out/demo.cpp -o /tmp/demo_wo_$$ 2>&1 | grep -E "error" | head -3
/tmp/demo_wo_$$ > /tmp/demo_wo_$$.out 2>&1; echo "exit=$?"; tail -2 /tmp/demo_wo_$$.out
git apply /tmp/mut_$$.diff; rm -f /tmp/demo_with_$$* /tmp/demo_wo_$$* /tmp/mut_$$.diff
cd /verif
for p in "$@"; do
  echo "--- check $p against the mutant"
  VERIF_REPO_SRC=$wt/src bin/check $p --no-evidence --no-diff 2>&1 | grep -E "VIOLATION|^    |BROKEN|KNOWN|^\[$p\] obl" | cut -c1-300 | head -12
  echo "exit=${PIPESTATUS[0]}"
done
