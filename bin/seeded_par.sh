#!/bin/bash
# Parallel variant of bin/seeded_run.sh: every seeded change is applied to a scratch copy of /repo/src (under /tmp, removed afterwards) and the
# quick check of the property it breaks runs against that copy (VERIF_REPO_SRC), N changes at a time. /repo itself is not touched.
# usage: bin/seeded_par.sh [N=3] [id-pattern]    output: one line per seeded change; exit 0 iff every change was detected
cd /verif
N=${1:-3}; pat=${2:-.}
one() {
  id=$1; d=/verif/seeded/$id
  prop=$(python3 -c "import json;print(json.load(open('$d/meta.json'))['breaks'])")
  w=$(mktemp -d /tmp/seedsrc_XXXXXX); cp -r /repo/src $w/src
  if ! (cd $w && git apply $d/patch.diff 2>/dev/null); then echo "$id: patch does not apply to /repo HEAD"; rm -rf $w; return; fi
  out=$(VERIF_REPO_SRC=$w/src bin/check $prop --tier quick --no-evidence --no-diff --jobs ${JOBS:-8} 2>&1); rc=$?
  rm -rf $w
  nviol=$(echo "$out" | grep -c '^VIOLATION')
  echo "$id: property=$prop exit=$rc violations=$nviol $(echo "$out" | grep -m1 -A1 '^VIOLATION' | tail -1 | cut -c1-160)"
}
export -f one
ls seeded | grep -E "$pat" | xargs -P $N -I{} bash -c 'one {}' | tee /tmp/seeded_par.out
if grep -vq "exit=1 " /tmp/seeded_par.out; then exit 1; fi
exit 0
