#!/usr/bin/env python3
"""Regenerates /verif/MANIFEST.json from the table below (kept in one place so that it always validates)."""
import json, os
VERIF = os.path.dirname(os.path.dirname(os.path.abspath(__file__)))

TECH = "bounded symbolic execution of the clang -O1 LLVM IR of the real headers (own executor llsym) with z3 deciding every assertion/bounds/alignment query; counterexamples replayed natively under ASan/UBSan"
NOTE = ("Trusted: clang 14 -O1 IR as the semantics of the source, llsym, z3 5.1 (cvc5 re-decides sampled queries in the thorough tier), libstdc++ 12, "
        "the harness reference model. Bounds: see evidence.coverage.bounds; everything outside them, other parameter lists, std::pmr, fancy pointers, "
        "emplace(position) and the stale amalgamated src/cntgs.hpp are outside the claim.")

B = ("Bounds: pre-states of <=3 elements (<=2 for lists with two spans), spans <=2 objects (complete case split), capacity <=4 and byte budget <=64 symbolic, "
     "values / positions / junk memory / block base residue symbolic; ")
CLAIMED = {
    'C01': ("Every feasible path of `emplace^k ; op ; [emplace] ; op ; [emplace]` on 11 core parameter lists is executed symbolically against a tuple-sequence model; the solver shows "
            "every size/empty/capacity/field/erase-return assertion holds for all inputs of the path. " + B + "Bounded model checking is the right level: the property quantifies "
            "over histories and contents, which tests only sample.", "6/C01"),
    'C02': ("Mode A: for the core lists and a seeded sample of the layout family (<=3 payload parameters x kinds x sizes {1,2,4,12,16} x alignments {1..32}) every store and payload copy of "
            "N<=3 emplaced elements with span lengths symbolic up to 65535 (64 when two spans are symbolic) is shown in-bounds of the exactly-sized ledger block, and data_end-data_begin <= "
            "memory_consumption. Mode B: the same bounds checks are active on every path of the C01/C09 history shapes. Generalisation to larger N is a paper argument (DESIGN 6/C02), not a solver claim.", "6/C02"),
    'C03': ("Every __builtin_assume_aligned the library relies on (llvm.assume align bundles) becomes a proof obligation, plus explicit address%A==0 assertions for every AlignAs field on the "
            "load path, for fresh vectors and default-constructed-then-reserved ones (Mode A, symbolic sizes, both block-base residues; incl. 4-byte count types and packed 8-byte objects that start or end on a 4-aligned offset) and after erase/reserve/copy/move/swap (Mode B).", "6/C03"),
    'C04': ("Order, containment, non-overlap of fields and elements, span counts and iterator.data()==reference.data_begin() asserted on numeric addresses: Mode A with symbolic sizes including 0 (2-3 elements; 8 elements on lists without spans), "
            "Mode B after erase/reserve.", "6/C04"),
    'C05': ("Layout clause: every field address equals an independent greedy layout (lowest suitably aligned address), data_end within [greedy end, rounded up to S]; exact memory_consumption for full "
            "vectors without VaryingSize. Footprint clause: memory_consumption and the ledger block size after reserve/copy/move/assignment/swap are bounded by max(before, source) for the allocator kinds "
            "always-equal / stateful unequal / propagating.", "6/C05"),
    'C06': ("Instrumented value type Tr (self pointer + lifetime ledger keyed by address + write bracketing): construction on live storage, use/destruction of dead objects, clobbering from outside Tr's "
            "members and a wrong number of live objects after any step are violations; driven through the history shapes, copy/move/assign/swap, element and reference operations on the non-trivial lists N1-N4, on lists of an address-sensitive trivially destructible type (Sp), and through assignments whose allocation fails (fault schedule of C17).", "6/C06"),
    'C07': ("Ledger allocator: every deallocate must name the base, size, rebound type and an equal allocator of a live block; operator new/malloc in the IR is a violation; after every scope 0 live blocks. "
            "Driven through histories, copy/move/assign/swap with always-equal, stateful and propagating allocators, and element operations.", "6/C07"),
    'C08': ("get_allocator() after copy construction / copy assignment / move assignment / swap compared with the allocator_traits rules for all 16 combinations of POCCA/POCMA/POCS/select_on_container_copy_construction, "
            "equal and unequal instances; the ledger's allocator-equality check on every deallocate decides 'never owns memory from an unequal allocator'.", "6/C08"),
    'C09': ("Two vectors with independent symbolic pre-states (different capacities, budgets, fixed sizes), one of copy ctor / copy assign / move ctor / move assign / swap / self-assign+self-swap, Inv on both "
            "against the models, then a mutation of one side (independence; the target is also filled within the capacity it reports and the byte budget it inherited) and clear / copy assignment / swap / move assignment from a vector of another allocator instance on the moved-from operand; all 11 core lists incl. trivially copyable ones, always-equal, unequal stateful and propagating allocators.", "6/C09"),
    'C10': ("reserve(n,b) with symbolic n,b (n<=capacity and n>capacity), repeated reserve, fill to the new limits under bounds checking, contents/fixed sizes/addresses compared before and after (incl. address-sensitive stored values that must be relocated through their constructors); Mode A re-run of the "
            "capacity lemma on a reserved vector.", "6/C10"),
    'C11': ("Write through each access path (case split over operator[], front/back, *it, it[n], it->, reference copies) and read back through all others incl. const paths and structured bindings; reference "
            "assignment (copy/move; also for a value type whose copy and move assignment differ in triviality), swap, iter_swap between any two positions; iterator arithmetic/comparisons for symbolic offsets in [0,size()]; rotate/reverse/swap_ranges against the same algorithm on the model.", "6/C11"),
    'C12': ("ContiguousElement from reference/const_reference/rvalue reference (with and without allocator), copy/move/allocator-extended construction, copy/move assignment between different varying sizes and "
            "allocators (also into a moved-from target), swap, element<->reference assignment; values vs. model, moved-from counters, independence probes in both directions, ledgers; lists incl. two VaryingSize spans of a non-trivial type.", "6/C12"),
    'C13': ("== and != between references, const references, elements and vectors (incl. different allocator types) compared with a content-only model while fresh memory is solver-chosen junk, so padding and spare "
            "capacity are adversarial (incl. elements that keep a larger block from an earlier value, and a value type whose == is not bytewise identity); equal / one field differs / strict prefix / empty / moved-from / different fixed sizes arise from the symbolic contents.", "6/C13"),
    'C14': ("Relational laws (>,<=,>= via <; irreflexive, asymmetric, transitive, consistent with ==) on triples over the value domain {0,1,2}, agreement of all operand kinds, content-only dependence "
            "(same content rebuilt in other memory), vector< equals lexicographical_compare under the element-level <.", "6/C14"),
    'C15': ("16 source/target type pairs (integral, bool, floating point, enum incl. an unscoped 1-byte enum as source, classes with converting constructors / conversion operators, move-counting types) x 14 source forms (containers, node/generated ranges, arrays, pointers, move/forward/generated/reverse/segmented iterators) x FixedSize / VaryingSize / over-aligned VaryingSize with a field behind it x lengths 0..2 with symbolic source items: stored bits equal static_cast<T>(item) (z3 FP theory for int->float/double), "
            "lvalue sources unchanged, rvalue ranges and move_iterators moved from exactly once, exactly `length` items consumed (counting iterators).", "6/C15"),
    'C16': ("Numeric addresses of every element and data_begin(), and the allocator call count, snapshotted before and compared after emplace_back within capacity / pop_back / clear / reserve<=capacity / erase "
            "(elements in front); swap, move construction and equal-allocator move assignment must not allocate and hand over data_begin() unchanged (always-equal, stateful equal/unequal, propagating and swap-only-propagating allocators).", "6/C16"),
    'C17': ("Harness compiled with -fexceptions; the allocator throws at a solver-chosen allocation (fail the 1st, 2nd, ... k-th in turn, at most one per run); invoke/landingpad/resume and the __cxa runtime are "
            "interpreted by the executor. After the catch: Inv on operands that must be unchanged, weaker validity on the others, re-assignability by copy and by move from another allocator instance, repetition of the failed operation, and at scope exit 0 live blocks / 0 live objects / no double free / no terminate.", "6/C17"),
    'C18': ("Seven ways of being empty (default-constructed, capacity 0, fresh, emptied by pop_back / erase range / clear / repeated erase) x eight follow-up operations (the copies made from the empty vector are themselves reserved / filled and checked), then reserve+emplace_back and Inv; data pointers "
            "checked against the ledger; unwritten table slots and zero-byte blocks make dependence on never-written memory visible.", "6/C18"),
    'C19': ("Sufficient condition decided symbolically: every pre-existing region (vector objects, blocks, tables) is frozen, then every const operation runs (queries, element access, iteration, all six comparisons, "
            "copy construction, element construction, copy assignment from it); a store/memcpy/deallocate into frozen memory is a violation. No write by any reader => no data race under any interleaving of any number of readers. Fault schedule: the k-th copy construction of a stored object throws while the shared vector is copied.", "6/C19"),
}

NOT_APPLICABLE = {
    'C20': "whether a template member is well-formed is decided by the C++ front end at instantiation; there is no input, state or schedule for a solver to range over (DESIGN.md 6/C20). Harnesses that fail to compile inside a library header are reported by the property whose operation they drive.",
}


def main():
    props = [json.loads(l)['id'] for l in open(os.path.join(VERIF, 'properties.jsonl'))]
    checks = []
    for p in props:
        if p not in CLAIMED: continue
        text, ref = CLAIMED[p]
        checks.append(dict(property_id=p, quick_cmd=f"bin/check {p} --tier quick", thorough_cmd=f"bin/check {p} --tier thorough",
                           evidence_file=f"/verif/evidence/{p}.json", replay_cmd_template="bin/check --replay {path}", engine="llsym",
                           level_claimed=dict(category="model_checking", text=text, design_ref=ref), level_note=NOTE, technique=TECH))
    na = [dict(property_id=p, reason=NOT_APPLICABLE.get(p, "check not built yet (build phase in progress); will be decided with the same engine")) for p in props if p not in CLAIMED]
    m = dict(version=1,
             setup_cmd="python3-vt -m compileall -q llsym checks >/dev/null && python3-vt llsym/worker.py harness/h_smoke.cpp --budget 120 | tail -1",
             hooks=dict(guard="TRADIAS_CONTIGUOUS_VERIF", enable="no hooks: the library state is observable through its public interface; all instrumentation lives in the harness allocator and value types (harness/verif.hpp)",
                        baseline_off_cmd="/verif/bin/suite.sh   # = cmake --build /repo/_build -j16 -- -k0 ; ctest --test-dir /repo/_build -j8 --timeout 900 --output-junit ... ; compares the passing names with the 113 of /root/.vp/BASELINE.json (there are no hooks, so guard off = the tree as it is)",
                        source_commits=[], add_only=True),
             engines=[dict(name="llsym", path="llsym/engine.py", serves_properties=sorted(CLAIMED), kind_free_text="own KLEE-style symbolic executor over clang-14 textual LLVM IR, z3 back end, native replay runtime harness/replay_rt.cpp")],
             checks=checks, not_applicable=na,
             notes="fix: commits in /repo and known findings are listed in known_findings.json; see DESIGN.md section 7")
    json.dump(m, open(os.path.join(VERIF, 'MANIFEST.json'), 'w'), indent=1)
    print("claimed", len(checks), "not_applicable", len(na))


if __name__ == '__main__':
    main()
