#!/usr/bin/env python3
"""Regenerates /verif/MANIFEST.json from the table below (kept in one place so that it always validates)."""
import json, os
VERIF = os.path.dirname(os.path.dirname(os.path.abspath(__file__)))

TECH = "bounded symbolic execution of the clang -O1 LLVM IR of the real headers (own executor llsym) with z3 deciding every assertion/bounds/alignment query; counterexamples replayed natively under ASan/UBSan"
NOTE = ("Trusted: clang 14 -O1 IR as the semantics of the source, llsym, z3 5.1 (cvc5 re-decides sampled queries in the thorough tier), libstdc++ 12, "
        "the harness reference model. Bounds: see evidence.coverage.bounds; everything outside them, other parameter lists, std::pmr, fancy pointers, "
        "emplace(position) and the stale amalgamated src/cntgs.hpp are outside the claim.")

CLAIMED = {
    'C01': ("Every feasible path of `emplace^k ; op ; [emplace] ; op ; [emplace]` (k<=3, spans<=2 objects, capacity<=4 and byte budget<=64 symbolic, values/positions/junk "
            "memory symbolic) on 11 core parameter lists is executed symbolically against a tuple-sequence model; the solver shows every size/empty/capacity/field/erase-return "
            "assertion unsat-negated. Bounded model checking is the right level: the property quantifies over histories and contents, which tests only sample.", "6/C01"),
}

NOT_APPLICABLE = {
    'C20': "whether a template member is well-formed is decided by the C++ front end at instantiation; there is no input, state or schedule for a solver to range over (DESIGN.md 6/C20). Harnesses that fail to compile inside a library header are reported by the property whose operation they drive.",
}


def main():
    props = [json.loads(l)['id'] for l in open(os.path.join(VERIF, 'properties.jsonl'))]
    checks = []
    for p in props:
        if p not in CLAIMED: continue
        text, ref = CLAIMED[p]
        checks.append(dict(property_id=p, quick_cmd=f"bin/check {p} --tier quick", thorough_cmd=f"bin/check {p} --tier thorough",
                           evidence_file=f"/verif/evidence/{p}.json", replay_cmd_template="bin/check --replay {path}", engine="llsym",
                           level_claimed=dict(category="model_checking", text=text, design_ref=ref), level_note=NOTE, technique=TECH))
    na = [dict(property_id=p, reason=NOT_APPLICABLE.get(p, "check not built yet (build phase in progress); will be decided with the same engine")) for p in props if p not in CLAIMED]
    m = dict(version=1,
             setup_cmd="python3-vt -m compileall -q llsym checks >/dev/null && python3-vt llsym/worker.py harness/h_smoke.cpp --budget 120 | tail -1",
             hooks=dict(guard="TRADIAS_CONTIGUOUS_VERIF", enable="no hooks: the library state is observable through its public interface; all instrumentation lives in the harness allocator and value types (harness/verif.hpp)",
                        baseline_off_cmd="cmake --build /repo/_build -j16 -- -k0 ; ctest --test-dir /repo/_build -j8 --timeout 900",
                        source_commits=[], add_only=True),
             engines=[dict(name="llsym", path="llsym/engine.py", serves_properties=sorted(CLAIMED), kind_free_text="own KLEE-style symbolic executor over clang-14 textual LLVM IR, z3 back end, native replay runtime harness/replay_rt.cpp")],
             checks=checks, not_applicable=na,
             notes="fix: commits in /repo and known findings are listed in known_findings.json; see DESIGN.md section 7")
    json.dump(m, open(os.path.join(VERIF, 'MANIFEST.json'), 'w'), indent=1)
    print("claimed", len(checks), "not_applicable", len(na))


if __name__ == '__main__':
    main()
