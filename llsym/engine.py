#!/usr/bin/env python3-vt
"""llsym: symbolic executor for clang-14 textual LLVM IR (typed pointers) on z3.

Values   : python int (concrete fast path) | z3 BitVec | z3 Bool (i1) | list (aggregates)
Pointers : flat 64-bit integers; region r owns the window [r<<24 + slack, ...)
Memory   : per-region byte map over an uninterpreted array init_r (fresh memory = solver-chosen junk)
See /verif/DESIGN.md section 3 for the semantics.
"""
import sys, re, time, copy, json, os
import z3
sys.path.insert(0, os.path.dirname(os.path.abspath(__file__)))
from ll2c import (parse_module, P, tokenize, parse_const, resolve, sizeof, struct_layout,
                  IntTy, FloatTy, PtrTy, ArrTy, VecTy, StructTy, NamedTy, VoidTy, FuncTy, MetaTy, Val, flatten_init,
                  PARAM_ATTRS, skip_attrs)

WIN = 24
WMASK = (1 << WIN) - 1
MASK64 = (1 << 64) - 1
BV64 = z3.BitVecSort(64)
BV8 = z3.BitVecSort(8)


def is_c(v): return isinstance(v, int)
def bv(v, n): return z3.BitVecVal(v, n) if isinstance(v, int) else v


def simp(e):
    if isinstance(e, int): return e
    e = z3.simplify(e)
    if z3.is_bv_value(e): return e.as_long()
    if z3.is_true(e): return 1
    if z3.is_false(e): return 0
    return e


def to_signed(v, n): return v - (1 << n) if v >> (n - 1) else v


class Unsupported(Exception):
    pass


class Violation(Exception):
    pass


class PathEnd(Exception):
    pass


class Alt:
    """nondeterministic result of an external: list of (constraint|None, value, tag)"""
    def __init__(s, alts): s.alts = alts


THROW = object()
FATAL_KINDS = ('BOUNDS', 'LEDGER', 'LIFETIME', 'TERMINATE', 'UNREACHABLE', 'TRAP', 'BOUND', 'EXC', 'OVERLAP', 'ASSERT', 'RACE-WRITE', 'FOREIGN-ALLOC')


class LazyByte:
    """byte i of an n-byte value (avoids Extract/Concat churn)"""
    __slots__ = ('val', 'i', 'n')
    def __init__(s, val, i, n): s.val = val; s.i = i; s.n = n
    def get(s):
        if isinstance(s.val, int): return (s.val >> (8 * s.i)) & 0xff
        return simp(z3.Extract(8 * s.i + 7, 8 * s.i, s.val))


class Region:
    __slots__ = ('rid', 'size', 'kind', 'name', 'live', 'mem', 'own', 'init', 'symw', 'slack', 'align', 'alloc_id', 'frozen', 'order', 'pin', 'safe')
    def __init__(s, rid, size, kind, name=""):
        s.rid = rid; s.size = size; s.kind = kind; s.live = True; s.name = name
        s.mem = {}; s.own = True
        s.init = None
        s.symw = ()       # tuple of (offset_expr, byte) symbolic-offset writes, later shadow earlier
        s.slack = 0; s.align = 1; s.alloc_id = None; s.frozen = False; s.order = -1; s.pin = None; s.safe = 0
    def clone(s):
        r = Region.__new__(Region)
        r.rid = s.rid; r.size = s.size; r.kind = s.kind; r.live = s.live; r.name = s.name
        r.mem = s.mem; r.own = False; s.own = False
        r.init = s.init; r.symw = s.symw; r.slack = s.slack; r.align = s.align; r.alloc_id = s.alloc_id
        r.frozen = s.frozen; r.order = s.order; r.pin = s.pin; r.safe = s.safe
        return r
    def wmem(s):
        if not s.own:
            s.mem = dict(s.mem); s.own = True
        return s.mem
    def init_byte(s, off):
        """initial (never written) content at offset"""
        if s.pin is not None:
            if isinstance(off, int): return s.pin(off)
            raise Unsupported("symbolic offset into pinned junk")
        if s.init is None: s.init = z3.Array(f"init_{s.rid}", BV64, BV8)
        return z3.Select(s.init, bv(off, 64))


class Frame:
    __slots__ = ('fn', 'regs', 'block', 'pc', 'ret_to', 'allocas')
    def __init__(s, fn):
        s.fn = fn; s.regs = {}; s.block = 0; s.pc = 0; s.ret_to = None; s.allocas = []
    def clone(s):
        f = Frame.__new__(Frame)
        f.fn = s.fn; f.regs = dict(s.regs); f.block = s.block; f.pc = s.pc; f.ret_to = s.ret_to; f.allocas = list(s.allocas)
        return f


class State:
    def __init__(s):
        s.frames = []; s.regions = {}; s.next_rid = 1; s.pc = []; s.inputs = []; s.exc = None
        s.steps = 0; s.notes = []; s.allocs = []; s.objs = {}; s.writing = 0
        s.observations = []; s.reached = set(); s.choices = []; s.alloc_count = 0; s.bytes_req = 0; s.max_req = 0
        s.asserts_seen = set(); s.dead_asserts = set(); s.frozen_alloc_ids = frozenset()
    def clone(s):
        t = State.__new__(State)
        t.frames = [f.clone() for f in s.frames]; t.regions = {k: r.clone() for k, r in s.regions.items()}
        t.next_rid = s.next_rid; t.pc = list(s.pc); t.inputs = list(s.inputs); t.exc = s.exc; t.steps = s.steps
        t.notes = list(s.notes); t.allocs = list(s.allocs); t.objs = dict(s.objs); t.writing = s.writing
        t.observations = list(s.observations); t.reached = set(s.reached); t.choices = list(s.choices)
        t.alloc_count = s.alloc_count; t.bytes_req = s.bytes_req; t.max_req = s.max_req
        t.asserts_seen = set(s.asserts_seen); t.dead_asserts = set(s.dead_asserts); t.frozen_alloc_ids = s.frozen_alloc_ids
        return t


class Executor:
    def __init__(s, mod, cfg=None):
        s.mod = mod; s.cfg = cfg or {}
        s.solver = z3.Solver()
        s.solver.set(timeout=int(s.cfg.get('query_timeout_s', 20) * 1000))
        s.solver_stack = []   # ids of expressions asserted, one scope each
        s.stats = dict(paths=0, queries=0, queries_unsat=0, solver_s=0.0, forks=0, steps=0, asserts_checked=0,
                       infeasible=0, bound_hits=0, max_path_steps=0)
        s.violations = []
        s.viol_keys = set()
        s.funcs_entered = set()
        s.globals_addr = {}
        s.fn_by_addr = {}
        s.max_steps = s.cfg.get('max_steps', 400000)
        s.max_paths = s.cfg.get('max_paths', 200000)
        s.deadline = s.cfg.get('deadline')
        s.pinned = s.cfg.get('pinned_inputs')       # list of ints or None
        s.pin_seed = s.cfg.get('pin_seed', 0)
        s.slack_mode = s.cfg.get('slack', 'min')   # 'min' (= exactly aligned), 'zero', 'both'
        s.abstract_memcpy = s.cfg.get('abstract_memcpy', False)
        s.reach_all = set(); s.asserts_all = set(); s.observations = []
        s.sample_paths = []
        s.dump_queries = s.cfg.get('dump_queries')   # list to append smt2 strings (sampled)
        s.query_no = 0
        s.decoded = {}
        s.prep()

    # ------------------------------------------------------------ preparation
    def prep(s):
        for f in s.mod.funcs.values():
            names = []
            for idx, (lab, ins) in enumerate(f.blocks):
                if lab is None: lab = '%' + str(len(f.params))
                names.append(lab)
            f.labels = {n: i for i, n in enumerate(names)}
            f.names = names
            f.code = [None] * len(f.blocks)
            f.phis = [None] * len(f.blocks)

    # ------------------------------------------------------------ solver
    def sync(s, st):
        pc = st.pc; stack = s.solver_stack
        n = 0; m = min(len(pc), len(stack))
        while n < m and stack[n] is pc[n]: n += 1
        if len(stack) > n:
            s.solver.pop(len(stack) - n); del stack[n:]
        for c in pc[n:]:
            s.solver.push(); s.solver.add(c); stack.append(c)

    def sat(s, st, extra, want_model=False):
        t0 = time.time()
        s.sync(st)
        s.solver.push()
        for c in extra: s.solver.add(c)
        if s.dump_queries is not None:
            s.query_no += 1
            if s.query_no % s.cfg.get('dump_every', 97) == 0 and len(s.dump_queries) < s.cfg.get('dump_max', 40):
                s.dump_queries.append(s.solver.to_smt2())
        r = s.solver.check()
        m = s.solver.model() if (r == z3.sat and want_model) else None
        s.solver.pop()
        if r == z3.unknown:
            # second attempt: fresh non-incremental solver with the full QF_(A)BV preprocessing pipeline
            s.stats['fallback_queries'] = s.stats.get('fallback_queries', 0) + 1
            try: f = z3.SolverFor('QF_ABV')
            except Exception: f = z3.Solver()
            f.set(timeout=int(s.cfg.get('fallback_timeout_s', 300) * 1000))
            for c in st.pc: f.add(c)
            for c in extra: f.add(c)
            r = f.check()
            m = f.model() if (r == z3.sat and want_model) else None
            why = f.reason_unknown() if r == z3.unknown else ''
        s.stats['queries'] += 1; s.stats['solver_s'] += time.time() - t0
        if r == z3.unknown: raise Unsupported("solver returned unknown: " + why)
        if r == z3.unsat: s.stats['queries_unsat'] += 1
        if s.deadline and time.time() > s.deadline: raise Unsupported("obligation time budget exceeded")
        return (r == z3.sat), m

    # ------------------------------------------------------------ memory
    def new_region(s, st, size, kind, name="", slack=0):
        rid = st.next_rid; st.next_rid += 1
        r = Region(rid, size, kind, name); r.slack = slack
        if s.pinned is not None:
            seed = s.pin_seed; order = len(st.allocs) if kind == 'heap' else 0
            if kind == 'heap': r.pin = (lambda off, o=order, sd=seed: (sd * 131 + o * 17 + off * 7 + 3) & 0xff)
            else: r.pin = (lambda off: 0xAA)
        st.regions[rid] = r
        return r, (rid << WIN) + slack

    def resolve_ptr(s, st, addr, length, what):
        if not isinstance(addr, int): addr = simp(addr)
        if isinstance(addr, int):
            rid = addr >> WIN
            r = st.regions.get(rid)
            if r is None: s.violation(st, 'BOUNDS', f"{what}: wild pointer {addr:#x}")
            off = (addr & WMASK) - r.slack
            s.check_bounds(st, r, off, length, what)
            return r, off
        ok, m = s.sat(st, [], True)
        if not ok: raise PathEnd()
        val = m.eval(addr, model_completion=True).as_long()
        rid = val >> WIN
        other, _ = s.sat(st, [z3.LShR(addr, WIN) != rid])
        if other: s.violation(st, 'BOUNDS', f"{what}: pointer may refer to several regions (or leaves its block by >= 2^24)")
        r = st.regions.get(rid)
        if r is None: s.violation(st, 'BOUNDS', f"{what}: wild symbolic pointer")
        off = simp(addr - ((rid << WIN) + r.slack))
        s.check_bounds(st, r, off, length, what)
        return r, off

    def check_bounds(s, st, r, off, length, what):
        if not r.live: s.violation(st, 'BOUNDS', f"{what}: access to dead region {r.name} ({r.kind})")
        if isinstance(off, int) and isinstance(length, int) and isinstance(r.size, int):
            if off < 0 or off + length > r.size:
                s.violation(st, 'BOUNDS', f"{what}: [{off},{off+length}) outside region {r.name} of {r.size} bytes")
            return
        if isinstance(off, int) and isinstance(length, int):
            if off >= 0 and off + length <= r.safe: return
            if off < 0: s.violation(st, 'BOUNDS', f"{what}: access {-off} bytes in front of region {r.name} ({r.kind})")
            s.check(st, z3.UGE(r.size, off + length), 'BOUNDS', f"{what}: access outside region {r.name} ({r.kind})")
            r.safe = off + length
            return
        o, l, sz = bv(off, 64), bv(length, 64), bv(r.size, 64)
        bad = z3.Or(z3.UGT(o, sz), z3.UGT(l, sz - o))
        s.check(st, z3.Not(bad), 'BOUNDS', f"{what}: access outside region {r.name} ({r.kind})")

    def load_byte(s, r, off):
        if isinstance(off, int) and not r.symw:
            b = r.mem.get(off)
            if b is None: return r.init_byte(off)
            return b
        o = bv(off, 64)
        if isinstance(off, int):
            b = r.mem.get(off)
            base = r.init_byte(off) if b is None else b
            if isinstance(base, LazyByte): base = base.get()
            base = bv(base, 8)
        else:
            if r.pin is not None:
                base = z3.BitVecVal(0, 8)
                if isinstance(r.size, int):
                    for k in range(r.size):
                        if k not in r.mem: base = z3.If(o == k, z3.BitVecVal(r.pin(k), 8), base)
            else:
                base = r.init_byte(off)
            for k, v in r.mem.items():
                if isinstance(v, LazyByte): v = v.get()
                base = z3.If(o == k, bv(v, 8), base)
        for (wo, wv) in r.symw:
            if isinstance(wv, LazyByte): wv = wv.get()
            base = z3.If(o == bv(wo, 64), bv(wv, 8), base)
        return simp(base)

    def store_byte(s, r, off, val):
        if isinstance(off, int) and not r.symw: r.wmem()[off] = val
        else: r.symw = r.symw + ((off, val),)

    def load(s, st, addr, nbytes, what="load"):
        r, off = s.resolve_ptr(st, addr, nbytes, what)
        if r.kind == 'heap': s.on_heap_access(st, r, off, nbytes, False)
        if isinstance(off, int) and not r.symw:
            mem = r.mem
            b0 = mem.get(off)
            if isinstance(b0, LazyByte) and b0.i == 0 and b0.n == nbytes:
                v = b0.val; okk = True
                for i in range(1, nbytes):
                    b = mem.get(off + i)
                    if not (isinstance(b, LazyByte) and b.val is v and b.i == i): okk = False; break
                if okk: return v
            bs = []
            for i in range(nbytes):
                b = mem.get(off + i)
                if b is None: b = r.init_byte(off + i)
                elif isinstance(b, LazyByte): b = b.get()
                bs.append(b)
        else:
            bs = [s.load_byte(r, off + i if isinstance(off, int) else simp(off + i)) for i in range(nbytes)]
        if all(isinstance(b, int) for b in bs):
            v = 0
            for i, b in enumerate(bs): v |= b << (8 * i)
            return v
        if nbytes == 1: return simp(bv(bs[0], 8))
        return simp(z3.Concat(*[bv(b, 8) for b in reversed(bs)]))

    def store(s, st, addr, val, nbytes, what="store"):
        r, off = s.resolve_ptr(st, addr, nbytes, what)
        s.on_write(st, r, off, nbytes, what)
        if isinstance(off, int) and not r.symw:
            mem = r.wmem()
            if isinstance(val, int):
                for i in range(nbytes): mem[off + i] = (val >> (8 * i)) & 0xff
            elif nbytes == 1: mem[off] = val
            else:
                for i in range(nbytes): mem[off + i] = LazyByte(val, i, nbytes)
            return
        for i in range(nbytes):
            b = (val >> (8 * i)) & 0xff if isinstance(val, int) else simp(z3.Extract(8 * i + 7, 8 * i, val))
            s.store_byte(r, off + i if isinstance(off, int) else simp(off + i), b)

    def on_write(s, st, r, off, n, what):
        if r.kind == 'const': s.violation(st, 'BOUNDS', f'{what}: write to constant global {r.name}')
        if r.frozen: s.violation(st, 'RACE-WRITE', f'{what}: write into pre-existing memory {r.name} ({r.kind}) during a const operation')
        if r.kind == 'heap':
            s.on_heap_access(st, r, off, n, True)
            if st.objs and not st.writing and isinstance(off, int) and isinstance(n, int):
                base = (r.rid << WIN) + r.slack + off
                for a, (sz, live) in st.objs.items():
                    if live and a < base + n and base < a + sz:
                        s.record(st, 'CLOBBER', f'{what}: bytes of a live object at block offset {a - ((r.rid << WIN) + r.slack)} overwritten from outside its own member functions', None)
                        break

    def on_heap_access(s, st, r, off, n, is_write):
        pass

    def memcpy(s, st, dst, src, n, what):
        if not isinstance(n, int): n = simp(n)
        if not isinstance(n, int):
            if s.abstract_memcpy:
                rd, od = s.resolve_ptr(st, dst, n, what + " dst")
                if rd.frozen: s.violation(st, 'RACE-WRITE', f'{what}: write into pre-existing memory')
                return
            # concretise the length (complete case split)
            raise Unsupported("symbolic memcpy length (harness must verif_fork it)")
        if n == 0: return
        rs, os_ = s.resolve_ptr(st, src, n, what + " src"); rd, od = s.resolve_ptr(st, dst, n, what + " dst")
        s.on_write(st, rd, od, n, what)
        if 'memcpy' in what and rs is rd:
            if isinstance(os_, int) and isinstance(od, int):
                if os_ != od and abs(os_ - od) < n: s.violation(st, 'OVERLAP', 'memcpy with overlapping ranges')
            else:
                a, b = bv(os_, 64), bv(od, 64)
                s.check(st, z3.Or(a == b, z3.UGE(a - b, n), z3.UGE(b - a, n)) if False else z3.Or(a == b, z3.And(z3.UGE(a - b, n), z3.UGE(b - a, n))), 'OVERLAP', 'memcpy with overlapping ranges')
        if isinstance(os_, int) and isinstance(od, int) and not rs.symw and not rd.symw:
            smem = rs.mem
            bs = []
            for i in range(n):
                b = smem.get(os_ + i)
                if b is None: b = rs.init_byte(os_ + i)
                bs.append(b)
            dmem = rd.wmem()
            for i, b in enumerate(bs): dmem[od + i] = b
            return
        bs = [s.load_byte(rs, os_ + i if isinstance(os_, int) else simp(os_ + i)) for i in range(n)]
        for i, b in enumerate(bs): s.store_byte(rd, od + i if isinstance(od, int) else simp(od + i), b)

    # ------------------------------------------------------------ checking
    def stack_names(s, st):
        return [f.fn.name for f in st.frames]

    def model_inputs(s, st, model):
        out = []
        for name, var in st.inputs:
            out.append([name, var if isinstance(var, int) else model.eval(var, model_completion=True).as_long()])
        return out

    def junk_of(s, st, model):
        """initial heap contents (in allocation order) under the model, for replay"""
        res = []
        for rid in st.allocs:
            r = st.regions[rid]
            size = r.size if isinstance(r.size, int) else model.eval(r.size, model_completion=True).as_long()
            n = min(size, 4096)
            if r.init is None or n == 0: res.append(dict(size=size, slack=r.slack, bytes=None)); continue
            arr = model.eval(r.init, model_completion=True)
            bs = [model.eval(z3.Select(arr, z3.BitVecVal(i, 64)), model_completion=True).as_long() for i in range(n)]
            res.append(dict(size=size, slack=r.slack, bytes=bs))
        return res

    def record(s, st, kind, msg, model, aid=None):
        if model is None:
            ok, model = s.sat(st, [], True)
            if not ok: raise PathEnd()
        names = s.stack_names(st)
        inner = next((n for n in reversed(names) if 'cntgs' in n), names[-1] if names else '')
        key = (kind, aid, inner, msg if kind not in ('PROP', 'CLOBBER') else '')
        if key in s.viol_keys and len(s.violations) >= 1: return
        s.viol_keys.add(key)
        s.violations.append(dict(kind=kind, msg=msg, assert_id=aid, function=inner, stack=names[-6:],
                                 inputs=s.model_inputs(st, model), choices=list(st.choices),
                                 junk=s.junk_of(st, model), notes=list(st.notes)[-12:]))

    def violation(s, st, kind, msg, model=None, aid=None):
        s.record(st, kind, msg, model, aid)
        raise Violation(kind + ": " + msg)

    def check(s, st, cond, kind, msg, aid=None):
        """cond must hold for every input of this path. PROP/ALIGN violations are recorded and the path continues
        under the assumption that cond held (if satisfiable)."""
        s.stats['asserts_checked'] += 1
        if not isinstance(cond, int): cond = simp(cond)
        if isinstance(cond, int):
            if not cond:
                s.record(st, kind, msg, None, aid)
                if kind in FATAL_KINDS: raise Violation(kind + ": " + msg)
            return
        bad, m = s.sat(st, [z3.Not(cond)], True)
        if bad:
            s.record(st, kind, msg, m, aid)
            if kind in FATAL_KINDS: raise Violation(kind + ": " + msg)
            ok, _ = s.sat(st, [cond])
            if not ok: raise Violation(kind + ": " + msg)
        st.pc.append(cond)

    # ------------------------------------------------------------ values
    def value(s, st, v, fr=None):
        c = v.c; k = c[0]
        if k == 'local': return (fr or st.frames[-1]).regs[c[1]]
        if k == 'int':
            ty = resolve(s.mod, v.ty)
            if isinstance(ty, IntTy): return c[1] & ((1 << ty.n) - 1)
            raise Unsupported("int constant of non-int type")
        if k == 'null': return 0
        if k in ('undef', 'zero'):
            ty = resolve(s.mod, v.ty)
            if isinstance(ty, (StructTy, ArrTy)): return s.zero_agg(ty)
            if isinstance(ty, VecTy): return [0] * ty.n
            return 0
        if k == 'global': return s.global_addr(st, c[1])
        if k == 'fp' or k == 'fphex':
            import struct as _st
            ty = resolve(s.mod, v.ty)
            if k == 'fphex': d = _st.unpack('<d', _st.pack('<Q', int(c[1], 16)))[0]
            else: d = float(c[1])
            if ty.k == 'float': return _st.unpack('<I', _st.pack('<f', d))[0]
            return _st.unpack('<Q', _st.pack('<d', d))[0]
        if k == 'agg': return [s.value(st, e, fr) for e in c[1]]
        if k == 'cexpr':
            op = c[1]
            if op == 'gep': return s.add64(s.value(st, c[3], fr), s.gep_off(st, c[2], c[4], fr))
            if op in ('bitcast', 'addrspacecast', 'ptrtoint', 'inttoptr'): return s.value(st, c[2], fr)
            raise Unsupported("constant expression " + op)
        raise Unsupported("value %r" % (c,))

    def zero_agg(s, ty):
        ty = resolve(s.mod, ty)
        if isinstance(ty, StructTy): return [s.zero_agg(e) if isinstance(resolve(s.mod, e), (StructTy, ArrTy)) else 0 for e in ty.els]
        if isinstance(ty, ArrTy): return [s.zero_agg(ty.el) if isinstance(resolve(s.mod, ty.el), (StructTy, ArrTy)) else 0 for _ in range(ty.n)]
        return 0

    def add64(s, a, b):
        if isinstance(a, int) and isinstance(b, int): return (a + b) & MASK64
        if isinstance(b, int) and b == 0: return a
        if isinstance(a, int) and a == 0: return b
        return simp(bv(a, 64) + bv(b, 64))

    def gep_plan(s, sty, idx):
        """precompute: constant offset + list of (operand Val, width, elemsize)"""
        cur = sty; const = 0; dyn = []
        for n, iv in enumerate(idx):
            if n == 0: sz = sizeof(s.mod, cur)
            else:
                r = resolve(s.mod, cur)
                if isinstance(r, StructTy):
                    offs, _ = struct_layout(s.mod, r); const += offs[iv.c[1]]; cur = r.els[iv.c[1]]; continue
                cur = r.el; sz = sizeof(s.mod, cur)
            w = resolve(s.mod, iv.ty).n
            if iv.c[0] == 'int': const += to_signed(iv.c[1] & ((1 << w) - 1), w) * sz
            else: dyn.append((iv, w, sz))
        return const & MASK64, dyn

    def gep_eval(s, st, fr, plan):
        const, dyn = plan
        total = const
        for iv, w, sz in dyn:
            v = s.value(st, iv, fr)
            if isinstance(v, int): total = s.add64(total, (to_signed(v, w) * sz) & MASK64)
            else:
                if z3.is_bool(v): v = z3.If(v, z3.BitVecVal(1, w), z3.BitVecVal(0, w))
                if w < 64: v = z3.SignExt(64 - w, v)
                total = s.add64(total, simp(v * z3.BitVecVal(sz, 64)) if sz != 1 else v)
        return total

    def gep_off(s, st, sty, idx, fr=None):
        return s.gep_eval(st, fr or (st.frames[-1] if st.frames else None), s.gep_plan(sty, idx))

    def global_addr(s, st, name):
        a = s.globals_addr.get(name)
        if a is not None: return a
        if name in s.mod.funcs or name in s.mod.decls:
            a = (0xF << 40) + len(s.globals_addr); s.globals_addr[name] = a; s.fn_by_addr[a] = name; return a
        g = s.mod.globals[name]
        if g[0] == 'alias': raise Unsupported("alias global " + name)
        kind, ty, init = g
        r, addr = s.new_region(st, max(sizeof(s.mod, ty), 1), 'const' if kind == 'constant' else 'global', name)
        r.pin = (lambda off: 0)     # zero-initialised unless the initialiser says otherwise
        s.globals_addr[name] = addr
        if init is not None:
            fl = []; flatten_init(s.mod, init, 0, fl)
            for off, v in fl:
                val = s.value(st, v); n = sizeof(s.mod, v.ty)
                for i in range(n): r.mem[off + i] = (val >> (8 * i)) & 0xff
        return addr

    # ------------------------------------------------------------ run
    def run(s, entry):
        f = s.mod.funcs['@' + entry]
        st = State()
        fr = Frame(f); fr.ret_to = (None, 'call', None, None)
        st.frames.append(fr)
        for g in s.mod.globals:
            if s.mod.globals[g][0] != 'alias': s.global_addr(st, g)
        work = [st]
        while work:
            st = work.pop()
            try:
                s.run_path(st, work)
                s.finish_path(st, True)
            except Violation:
                s.finish_path(st, False)
            except PathEnd:
                s.stats['infeasible'] += 1
            if s.stats['paths'] > s.max_paths: raise Unsupported("path bound exceeded")
        return s.stats

    def finish_path(s, st, completed):
        s.stats['paths'] += 1
        s.stats['max_path_steps'] = max(s.stats['max_path_steps'], st.steps)
        s.asserts_all |= st.asserts_seen
        s.reach_all |= st.reached
        s.stats['steps'] += st.steps
        if completed:
            if s.pinned is not None: s.observations = list(st.observations)
            if len(s.sample_paths) < 3 and st.inputs:
                ok, m = s.sat(st, [], True)
                if ok: s.sample_paths.append(dict(inputs=s.model_inputs(st, m), choices=list(st.choices), steps=st.steps))

    def run_path(s, st, work):
        frames = st.frames
        max_steps = s.max_steps
        while frames:
            fr = frames[-1]
            code = fr.fn.code[fr.block]
            if code is None: code = s.decode_block(fr.fn, fr.block)
            st.steps += 1
            if st.steps > max_steps:
                s.stats['bound_hits'] += 1
                s.violation(st, 'BOUND', 'step bound exceeded (unwinding assertion)')
            code[fr.pc](st, fr, work)

    # ------------------------------------------------------------ decoding
    def decode_block(s, f, bi):
        lab, ins = f.blocks[bi]
        code = []; phis = []
        for k, ln in enumerate(ins):
            ln2 = re.sub(r'(, ![-a-zA-Z$._0-9]+ ![-a-zA-Z$._0-9]+)+$', '', ln)
            m = re.match(r'^(%"(?:[^"\\]|\\.)*"|%[-a-zA-Z$._0-9]+) = (.*)$', ln2)
            dest, rest = (m.group(1), m.group(2)) if m else (None, ln2)
            toks = tokenize(rest)
            if toks[0] == 'phi':
                p = P(toks[1:], s.mod); ty = p.type(); inc = {}
                while True:
                    p.expect('['); v = parse_const(p, ty); p.expect(','); pred = p.next(); p.expect(']')
                    inc[pred] = v
                    if not p.eat(','): break
                phis.append((dest, inc))
                code.append(None)
                continue
            try:
                code.append(s.decode(f, dest, toks, ln))
            except Unsupported:
                raise
            except Exception as e:
                raise Unsupported(f"cannot decode '{ln}' in {f.name}: {e!r}")
        f.code[bi] = code; f.phis[bi] = phis
        return code

    def jump(s, st, fr, target):
        f = fr.fn
        frm = f.names[fr.block]
        bi = f.labels[target]
        if f.code[bi] is None: s.decode_block(f, bi)
        phis = f.phis[bi]
        if phis:
            newvals = [(d, s.value(st, inc[frm], fr)) for d, inc in phis]
            for d, v in newvals: fr.regs[d] = v
        fr.block = bi; fr.pc = len(phis)

    def as_bool(s, v):
        if isinstance(v, int): return bool(v)
        if z3.is_bool(v): return v
        return v != 0

    def as_bv(s, v, n):
        if isinstance(v, int): return v
        if z3.is_bool(v): return z3.If(v, z3.BitVecVal(1, n), z3.BitVecVal(0, n))
        return v

    def binop(s, op, a, b, n):
        M = (1 << n) - 1
        if isinstance(a, int) and isinstance(b, int):
            if op == 'add': return (a + b) & M
            if op == 'sub': return (a - b) & M
            if op == 'mul': return (a * b) & M
            if op == 'and': return a & b
            if op == 'or': return a | b
            if op == 'xor': return a ^ b
            if op == 'shl': return (a << b) & M if b < n else 0
            if op == 'lshr': return a >> b if b < n else 0
            if op == 'ashr': return (to_signed(a, n) >> min(b, n - 1)) & M
            if op == 'udiv': return a // b if b else 0
            if op == 'urem': return a % b if b else 0
            if op == 'sdiv':
                x, y = to_signed(a, n), to_signed(b, n)
                if y == 0: return 0
                q = abs(x) // abs(y); return (q if (x < 0) == (y < 0) else -q) & M
            if op == 'srem':
                x, y = to_signed(a, n), to_signed(b, n)
                if y == 0: return 0
                r = abs(x) % abs(y); return (r if x >= 0 else -r) & M
        if n == 1:
            A = s.as_bool(a) if not isinstance(a, int) else z3.BoolVal(bool(a))
            B = s.as_bool(b) if not isinstance(b, int) else z3.BoolVal(bool(b))
            if op == 'and': return simp(z3.And(A, B))
            if op == 'or': return simp(z3.Or(A, B))
            if op in ('xor', 'add', 'sub'): return simp(z3.Xor(A, B))
            raise Unsupported("i1 binop " + op)
        A, B = bv(a, n), bv(b, n)
        if z3.is_bool(A): A = s.as_bv(A, n)
        if z3.is_bool(B): B = s.as_bv(B, n)
        if op == 'add': r = A + B
        elif op == 'sub': r = A - B
        elif op == 'mul': r = A * B
        elif op == 'and': r = A & B
        elif op == 'or': r = A | B
        elif op == 'xor': r = A ^ B
        elif op == 'shl': r = A << B
        elif op == 'lshr': r = z3.LShR(A, B)
        elif op == 'ashr': r = A >> B
        elif op == 'udiv': r = z3.UDiv(A, B)
        elif op == 'urem': r = z3.URem(A, B)
        elif op == 'sdiv': r = A / B
        elif op == 'srem': r = z3.SRem(A, B)
        else: raise Unsupported(op)
        return simp(r)

    def icmp(s, pred, a, b, n):
        if isinstance(a, int) and isinstance(b, int):
            if pred[0] == 's': a, b = to_signed(a, n), to_signed(b, n)
            if pred == 'eq': return int(a == b)
            if pred == 'ne': return int(a != b)
            if pred in ('ugt', 'sgt'): return int(a > b)
            if pred in ('uge', 'sge'): return int(a >= b)
            if pred in ('ult', 'slt'): return int(a < b)
            return int(a <= b)
        if n == 1:
            A = s.as_bool(a) if not isinstance(a, int) else z3.BoolVal(bool(a))
            B = s.as_bool(b) if not isinstance(b, int) else z3.BoolVal(bool(b))
            if pred == 'eq': return simp(A == B)
            if pred == 'ne': return simp(z3.Xor(A, B))
            a = s.as_bv(a, 1); b = s.as_bv(b, 1)
        A, B = bv(a, n), bv(b, n)
        if pred == 'eq': r = A == B
        elif pred == 'ne': r = A != B
        elif pred == 'ugt': r = z3.UGT(A, B)
        elif pred == 'uge': r = z3.UGE(A, B)
        elif pred == 'ult': r = z3.ULT(A, B)
        elif pred == 'ule': r = z3.ULE(A, B)
        elif pred == 'sgt': r = A > B
        elif pred == 'sge': r = A >= B
        elif pred == 'slt': r = A < B
        else: r = A <= B
        return simp(r)

    def bits_of(s, ty):
        r = resolve(s.mod, ty)
        if isinstance(r, PtrTy): return 64
        if isinstance(r, FloatTy): return sizeof(s.mod, r) * 8
        if isinstance(r, IntTy): return r.n
        return sizeof(s.mod, r) * 8

    def mkop(s, v):
        """operand accessor: returns function (st, fr) -> value"""
        c = v.c
        if c[0] == 'local':
            nm = c[1]
            return lambda st, fr: fr.regs[nm]
        if c[0] == 'int':
            ty = resolve(s.mod, v.ty)
            k = c[1] & ((1 << ty.n) - 1)
            return lambda st, fr: k
        if c[0] == 'null': return lambda st, fr: 0
        return lambda st, fr: s.value(st, v, fr)

    def decode(s, f, dest, toks, ln):
        mod = s.mod
        p = P(toks, mod)
        op = p.next()
        while op in ('tail', 'musttail', 'notail'): op = p.next()
        def operand(ty): return s.mkop(parse_const(p, ty))
        def ty_op():
            t = p.type(); return t, operand(t)
        BIN = ('add', 'sub', 'mul', 'and', 'or', 'xor', 'shl', 'lshr', 'ashr', 'udiv', 'urem', 'sdiv', 'srem')
        if op in BIN:
            while p.peek() in ('nuw', 'nsw', 'exact'): p.next()
            ty = p.type(); a = operand(ty); p.expect(','); b = operand(ty); n = resolve(mod, ty).n
            binop = s.binop
            def run(st, fr, work):
                fr.regs[dest] = binop(op, a(st, fr), b(st, fr), n); fr.pc += 1
            return run
        if op == 'icmp':
            pred = p.next(); ty = p.type(); a = operand(ty); p.expect(','); b = operand(ty)
            n = s.bits_of(ty); icmp = s.icmp
            def run(st, fr, work):
                fr.regs[dest] = icmp(pred, a(st, fr), b(st, fr), n); fr.pc += 1
            return run
        if op == 'select':
            cty, c = ty_op(); p.expect(','); ty, a = ty_op(); p.expect(','); _, b = ty_op()
            rty = resolve(mod, ty)
            if isinstance(rty, (StructTy, ArrTy, VecTy)): raise Unsupported("select on aggregate")
            n = s.bits_of(ty)
            def run(st, fr, work):
                cv = c(st, fr)
                if not isinstance(cv, int): cv = simp(cv)
                av = a(st, fr); bvv = b(st, fr)
                if isinstance(cv, int): r = av if cv else bvv
                elif n == 1:
                    A = s.as_bool(av) if not isinstance(av, int) else z3.BoolVal(bool(av))
                    B = s.as_bool(bvv) if not isinstance(bvv, int) else z3.BoolVal(bool(bvv))
                    r = simp(z3.If(s.as_bool(cv), A, B))
                else:
                    r = simp(z3.If(s.as_bool(cv), bv(s.as_bv(av, n), n), bv(s.as_bv(bvv, n), n)))
                fr.regs[dest] = r; fr.pc += 1
            return run
        if op == 'freeze':
            t, v = ty_op()
            def run(st, fr, work):
                fr.regs[dest] = v(st, fr); fr.pc += 1
            return run
        if op in ('zext', 'sext', 'trunc', 'ptrtoint', 'inttoptr', 'bitcast', 'addrspacecast'):
            fty, v = ty_op(); p.expect('to'); tty = p.type()
            rf, rt = resolve(mod, fty), resolve(mod, tty)
            nf, nt = s.bits_of(fty), s.bits_of(tty)
            fl_f, fl_t = isinstance(rf, FloatTy), isinstance(rt, FloatTy)
            vec_f = isinstance(rf, VecTy); vec_t = isinstance(rt, VecTy)
            if (vec_f or vec_t) and op != 'bitcast': raise Unsupported("vector " + op)
            def vec_to_int(x, ty):
                w = s.bits_of(ty.el); acc = 0
                for k, e in enumerate(x):
                    if isinstance(e, int) and isinstance(acc, int): acc |= e << (w * k)
                    else: acc = simp(bv(acc, w * ty.n) | (z3.ZeroExt(w * ty.n - w, bv(e, w)) << (w * k)))
                return acc
            def int_to_vec(x, ty):
                w = s.bits_of(ty.el)
                return [((x >> (w * k)) & ((1 << w) - 1)) if isinstance(x, int) else simp(z3.Extract(w * k + w - 1, w * k, x)) for k in range(ty.n)]
            def run(st, fr, work):
                x = v(st, fr)
                if vec_f or vec_t:
                    if vec_f and vec_t:
                        r = int_to_vec(vec_to_int(x, rf), rt)
                    elif vec_f: r = vec_to_int(x, rf)
                    else: r = int_to_vec(x, rt)
                    fr.regs[dest] = r; fr.pc += 1; return
                if nf == 1 and not isinstance(x, int): x = s.as_bv(x, 1)
                if op in ('bitcast', 'addrspacecast'): r = x
                elif op in ('zext', 'ptrtoint', 'inttoptr') and nt >= nf:
                    r = x if isinstance(x, int) or nt == nf else simp(z3.ZeroExt(nt - nf, x))
                elif op == 'sext':
                    r = to_signed(x, nf) & ((1 << nt) - 1) if isinstance(x, int) else simp(z3.SignExt(nt - nf, x))
                else:
                    r = x & ((1 << nt) - 1) if isinstance(x, int) else simp(z3.Extract(nt - 1, 0, x))
                    if nt == 1 and not isinstance(r, int): r = simp(r == 1)
                fr.regs[dest] = r; fr.pc += 1
            return run
        if op in ('sitofp', 'uitofp', 'fptosi', 'fptoui', 'fpext', 'fptrunc'):
            fty, v = ty_op(); p.expect('to'); tty = p.type()
            return s.decode_fpconv(op, dest, fty, v, tty)
        if op == 'fcmp':
            while p.peek() in ('fast', 'nnan', 'ninf', 'nsz', 'arcp', 'contract', 'afn', 'reassoc'): p.next()
            pred = p.next(); ty = p.type(); a = operand(ty); p.expect(','); b = operand(ty)
            return s.decode_fcmp(dest, pred, ty, a, b)
        if op == 'getelementptr':
            p.eat('inbounds'); sty = p.type(); p.expect(','); bty = p.type(); basev = s.mkop(parse_const(p, bty)); idx = []
            while p.eat(','):
                ity = p.type(); idx.append(parse_const(p, ity))
            plan = s.gep_plan(sty, idx)
            const, dyn = plan
            if not dyn:
                def run(st, fr, work):
                    b = basev(st, fr)
                    fr.regs[dest] = (b + const) & MASK64 if isinstance(b, int) else s.add64(b, const); fr.pc += 1
            else:
                def run(st, fr, work):
                    fr.regs[dest] = s.add64(basev(st, fr), s.gep_eval(st, fr, plan)); fr.pc += 1
            return run
        if op == 'load':
            p.eat('atomic'); p.eat('volatile'); ty = p.type(); p.expect(','); pty, ptr = ty_op()
            rty = resolve(mod, ty)
            if isinstance(rty, VecTy):
                esz = sizeof(mod, rty.el); cnt = rty.n
                def run(st, fr, work):
                    base = ptr(st, fr)
                    fr.regs[dest] = [s.load(st, s.add64(base, k * esz), esz) for k in range(cnt)]; fr.pc += 1
                return run
            if isinstance(rty, (StructTy, ArrTy)): raise Unsupported("aggregate load")
            nb = sizeof(mod, ty); isb = isinstance(rty, IntTy) and rty.n == 1
            def run(st, fr, work):
                v = s.load(st, ptr(st, fr), nb)
                if isb: v = v & 1 if isinstance(v, int) else simp(z3.Extract(0, 0, v) == 1)
                fr.regs[dest] = v; fr.pc += 1
            return run
        if op == 'store':
            p.eat('atomic'); p.eat('volatile'); ty, v = ty_op(); p.expect(','); pty, ptr = ty_op()
            rty = resolve(mod, ty); nb = sizeof(mod, ty)
            if isinstance(rty, VecTy):
                esz = sizeof(mod, rty.el); cnt = rty.n
                def run(st, fr, work):
                    base = ptr(st, fr); x = v(st, fr)
                    for k in range(cnt): s.store(st, s.add64(base, k * esz), x[k], esz)
                    fr.pc += 1
                return run
            if isinstance(rty, (StructTy, ArrTy)): raise Unsupported("aggregate store")
            isb = isinstance(rty, IntTy) and rty.n == 1
            nbits = rty.n if isinstance(rty, IntTy) else 8 * nb
            def run(st, fr, work):
                x = v(st, fr)
                if not isinstance(x, int):
                    if isb or z3.is_bool(x): x = s.as_bv(x, 8 * nb)
                    elif nbits < 8 * nb: x = z3.ZeroExt(8 * nb - nbits, x)
                s.store(st, ptr(st, fr), x, nb); fr.pc += 1
            return run
        if op == 'alloca':
            ty = p.type(); cnt = None
            if p.eat(','):
                if p.peek() != 'align':
                    cty = p.type(); cnt = parse_const(p, cty)
            if cnt is not None and cnt.c[0] != 'int': raise Unsupported("dynamic alloca")
            size = max(sizeof(mod, ty) * (cnt.c[1] if cnt else 1), 1)
            nm = f"{f.name}:{dest}"
            def run(st, fr, work):
                r, addr = s.new_region(st, size, 'stack', nm)
                fr.allocas.append(r.rid)
                fr.regs[dest] = addr; fr.pc += 1
            return run
        if op == 'br':
            if p.peek() == 'label':
                p.next(); tgt = p.next()
                def run(st, fr, work): s.jump(st, fr, tgt)
                return run
            cty, c = ty_op(); p.expect(','); p.expect('label'); t1 = p.next(); p.expect(','); p.expect('label'); t2 = p.next()
            def run(st, fr, work):
                cv = c(st, fr)
                if not isinstance(cv, int):
                    cv = simp(s.as_bool(cv))
                if isinstance(cv, int):
                    s.jump(st, fr, t1 if cv else t2); return
                t, _ = s.sat(st, [cv]); nc = z3.Not(cv)
                fz = True if not t else s.sat(st, [nc])[0]
                if t and fz:
                    s.stats['forks'] += 1
                    o = st.clone(); o.pc.append(nc); s.jump(o, o.frames[-1], t2); work.append(o)
                    st.pc.append(cv); s.jump(st, fr, t1)
                elif t: st.pc.append(cv); s.jump(st, fr, t1)
                elif fz: st.pc.append(nc); s.jump(st, fr, t2)
                else: raise PathEnd()
            return run
        if op == 'switch':
            ty, v = ty_op(); p.expect(','); p.expect('label'); dflt = p.next(); p.expect('[')
            cases = []
            while not p.eat(']'):
                cty = p.type(); cv = parse_const(p, cty); p.expect(','); p.expect('label'); cases.append((cv.c[1] & ((1 << resolve(mod, cty).n) - 1), p.next()))
            n = resolve(mod, ty).n
            def run(st, fr, work):
                x = v(st, fr)
                if not isinstance(x, int): x = simp(x)
                if isinstance(x, int):
                    for cv, tgt in cases:
                        if cv == x: s.jump(st, fr, tgt); return
                    s.jump(st, fr, dflt); return
                feas = []
                for cv, tgt in cases:
                    ok, _ = s.sat(st, [x == cv])
                    if ok: feas.append((x == cv, tgt))
                dc = z3.And([x != cv for cv, _ in cases])
                ok, _ = s.sat(st, [dc])
                if ok: feas.append((dc, dflt))
                if not feas: raise PathEnd()
                for cond, tgt in feas[1:]:
                    o = st.clone(); o.pc.append(cond); s.jump(o, o.frames[-1], tgt); work.append(o); s.stats['forks'] += 1
                st.pc.append(feas[0][0]); s.jump(st, fr, feas[0][1])
            return run
        if op == 'ret':
            ty = p.type(); rv = None
            if not isinstance(ty, VoidTy): rv = operand(ty)
            def run(st, fr, work):
                s.do_return(st, rv(st, fr) if rv else None)
            return run
        if op == 'unreachable':
            def run(st, fr, work):
                s.violation(st, 'UNREACHABLE', f"IR unreachable executed in {fr.fn.name}")
            return run
        if op == 'extractvalue':
            ty, v = ty_op(); path = []
            while p.eat(','): path.append(int(p.next()))
            def run(st, fr, work):
                x = v(st, fr)
                for i in path: x = x[i]
                fr.regs[dest] = x; fr.pc += 1
            return run
        if op == 'insertvalue':
            ty, v = ty_op(); p.expect(','); ety, ev = ty_op(); path = []
            while p.eat(','): path.append(int(p.next()))
            def run(st, fr, work):
                x = v(st, fr)
                x = copy.deepcopy(x) if isinstance(x, list) else s.zero_agg(ty)
                cur = x
                for i in path[:-1]: cur = cur[i]
                cur[path[-1]] = ev(st, fr)
                fr.regs[dest] = x; fr.pc += 1
            return run
        if op == 'insertelement':
            vty, v = ty_op(); p.expect(','); ety, e = ty_op(); p.expect(','); ity, i = ty_op()
            def run(st, fr, work):
                x = list(v(st, fr)); k = i(st, fr)
                if not isinstance(k, int): raise Unsupported("symbolic vector index")
                x[k] = e(st, fr); fr.regs[dest] = x; fr.pc += 1
            return run
        if op == 'extractelement':
            vty, v = ty_op(); p.expect(','); ity, i = ty_op()
            def run(st, fr, work):
                k = i(st, fr)
                if not isinstance(k, int): raise Unsupported("symbolic vector index")
                fr.regs[dest] = v(st, fr)[k]; fr.pc += 1
            return run
        if op in ('call', 'invoke'):
            return s.decode_call(f, dest, p, op)
        if op == 'landingpad':
            def run(st, fr, work):
                exc = st.exc; st.exc = None
                fr.regs[dest] = [exc or 0, 1]; fr.pc += 1
            return run
        if op == 'resume':
            ty, v = ty_op()
            def run(st, fr, work):
                x = v(st, fr)
                st.exc = x[0] if isinstance(x, list) else 1
                s.unwind(st)
            return run
        if op == 'fneg' or op in ('fadd', 'fsub', 'fmul', 'fdiv', 'frem'):
            raise Unsupported("floating-point arithmetic " + op)
        raise Unsupported("unhandled op " + op + " :: " + ln)

    # ---- floating point (conversions and comparisons only, via z3 FP theory)
    def fsort(s, ty):
        k = resolve(s.mod, ty).k
        if k == 'float': return z3.Float32(), 32
        if k == 'double': return z3.Float64(), 64
        raise Unsupported("fp type " + k)

    def to_fp(s, x, ty):
        srt, n = s.fsort(ty)
        return z3.fpBVToFP(bv(x, n), srt)

    def decode_fpconv(s, op, dest, fty, v, tty):
        mod = s.mod
        def run(st, fr, work):
            x = v(st, fr)
            if op in ('sitofp', 'uitofp'):
                n = resolve(mod, fty).n; srt, nt = s.fsort(tty)
                X = bv(s.as_bv(x, n), n)
                r = z3.fpSignedToFP(z3.RNE(), X, srt) if op == 'sitofp' else z3.fpUnsignedToFP(z3.RNE(), X, srt)
                r = simp(z3.fpToIEEEBV(r))
            elif op in ('fptosi', 'fptoui'):
                n = resolve(mod, tty).n
                F = s.to_fp(x, fty)
                r = simp(z3.fpToSBV(z3.RTZ(), F, z3.BitVecSort(n)) if op == 'fptosi' else z3.fpToUBV(z3.RTZ(), F, z3.BitVecSort(n)))
            else:
                srt, nt = s.fsort(tty)
                r = simp(z3.fpToIEEEBV(z3.fpFPToFP(z3.RNE(), s.to_fp(x, fty), srt)))
            fr.regs[dest] = r; fr.pc += 1
        return run

    def decode_fcmp(s, dest, pred, ty, a, b):
        def run(st, fr, work):
            A = s.to_fp(a(st, fr), ty); B = s.to_fp(b(st, fr), ty)
            un = z3.Or(z3.fpIsNaN(A), z3.fpIsNaN(B))
            base = {'eq': z3.fpEQ(A, B), 'gt': z3.fpGT(A, B), 'ge': z3.fpGEQ(A, B), 'lt': z3.fpLT(A, B), 'le': z3.fpLEQ(A, B),
                    'ne': z3.Not(z3.fpEQ(A, B))}
            if pred == 'true': r = 1
            elif pred == 'false': r = 0
            elif pred == 'ord': r = simp(z3.Not(un))
            elif pred == 'uno': r = simp(un)
            elif pred[0] == 'o': r = simp(z3.And(z3.Not(un), base[pred[1:]]))
            else: r = simp(z3.Or(un, base[pred[1:]]))
            fr.regs[dest] = r; fr.pc += 1
        return run

    # ------------------------------------------------------------ calls
    def do_return(s, st, rv):
        fr = st.frames.pop()
        regs = st.regions
        for rid in fr.allocas:
            r = regs[rid]
            if not r.own or True:
                r2 = r.clone() if not r.own else r
                r2.live = False; regs[rid] = r2
        if not st.frames: return
        caller = st.frames[-1]
        dest, kind, normal, unwind = fr.ret_to
        if dest is not None: caller.regs[dest] = rv
        if kind == 'invoke': s.jump(st, caller, normal)
        else: caller.pc += 1

    def unwind(s, st):
        while st.frames:
            fr = st.frames.pop()
            for rid in fr.allocas:
                r = st.regions[rid].clone(); r.live = False; st.regions[rid] = r
            if not st.frames:
                s.violation(st, 'EXC', 'exception escaped harness entry')
            caller = st.frames[-1]
            dest, kind, normal, unw = fr.ret_to
            if kind == 'invoke':
                s.jump(st, caller, unw); return

    def decode_call(s, f, dest, p, op):
        mod = s.mod
        while True:
            t = p.peek()
            if t in ('fastcc', 'ccc', 'coldcc', 'fast', 'nnan', 'ninf', 'nsz', 'arcp', 'contract', 'afn', 'reassoc'): p.next()
            elif t in PARAM_ATTRS or t in ('align', 'dereferenceable', 'dereferenceable_or_null'): skip_attrs(p)
            else: break
        rty = p.type()
        if isinstance(rty, FuncTy): rty = rty.ret
        if isinstance(rty, PtrTy) and isinstance(rty.to, FuncTy): rty = rty.to.ret
        callee = p.next(); p.expect('(')
        args = []
        while not p.eat(')'):
            aty = p.type(); skip_attrs(p)
            if isinstance(aty, MetaTy):
                while p.peek() not in (',', ')'): p.next()
                p.eat(','); continue
            args.append(s.mkop(parse_const(p, aty))); p.eat(',')
        rest = p.t[p.i:]
        bundles = []
        if '[' in rest:
            bi = rest.index('[')
            if bi + 1 < len(rest) and rest[bi + 1].startswith('"'):
                pb = P(rest[bi + 1:], mod)
                while True:
                    tag = pb.next().strip('"'); pb.expect('('); bargs = []
                    while not pb.eat(')'):
                        bt = pb.type(); bargs.append(s.mkop(parse_const(pb, bt))); pb.eat(',')
                    bundles.append((tag, bargs))
                    if not pb.eat(','): break
        kind = op; normal = unw = None
        if op == 'invoke':
            idx = rest.index('to'); normal = rest[idx + 2]; unw = rest[idx + 5]
        ret_to = (dest, kind, normal, unw)

        def done(st, fr, v=None):
            if dest is not None: fr.regs[dest] = v
            if kind == 'invoke': s.jump(st, fr, normal)
            else: fr.pc += 1

        def enter(st, fr, fn, argv):
            s.funcs_entered.add(fn.name)
            nf = Frame(fn)
            for (ty, nm), a in zip(fn.params, argv): nf.regs[nm] = a
            nf.ret_to = ret_to
            st.frames.append(nf)

        def ext_call(st, fr, name, argv, work):
            h = getattr(s, 'ext_' + re.sub(r'[^A-Za-z0-9_]', '_', name), None)
            if h is None: raise Unsupported("call to external function " + name)
            r = h(st, fr, argv, work)
            if r is THROW:
                if kind == 'invoke': s.jump(st, fr, unw)
                else: s.unwind(st)
                return
            if isinstance(r, Alt):
                alts = r.alts
                for cond, val, tag in alts[1:]:
                    o = st.clone()
                    if cond is not None: o.pc.append(cond)
                    if tag is not None: val = tag(o)
                    done(o, o.frames[-1], val); work.append(o); s.stats['forks'] += 1
                cond, val, tag = alts[0]
                if cond is not None: st.pc.append(cond)
                if tag is not None: val = tag(st)
                return done(st, fr, val)
            return done(st, fr, r)

        if callee[0] == '%':
            def run(st, fr, work):
                target = fr.regs[callee]
                if not isinstance(target, int): raise Unsupported("symbolic indirect call")
                nm = s.fn_by_addr.get(target)
                if nm is None: raise Unsupported("indirect call to unknown target")
                argv = [a(st, fr) for a in args]
                if nm in mod.funcs: return enter(st, fr, mod.funcs[nm], argv)
                return ext_call(st, fr, nm[1:].strip('"'), argv, work)
            return run
        name = callee[1:].strip('"')
        if callee in mod.funcs:
            fn = mod.funcs[callee]
            def run(st, fr, work):
                enter(st, fr, fn, [a(st, fr) for a in args])
            return run
        if name.startswith('llvm.'):
            return s.decode_intrinsic(name, args, bundles, done, f)
        def run(st, fr, work):
            ext_call(st, fr, name, [a(st, fr) for a in args], work)
        return run

    def decode_intrinsic(s, name, args, bundles, done, f):
        if name.startswith(('llvm.lifetime', 'llvm.experimental.noalias', 'llvm.dbg', 'llvm.invariant', 'llvm.prefetch', 'llvm.donothing')):
            return lambda st, fr, work: done(st, fr)
        if name == 'llvm.assume':
            fname = f.name
            def run(st, fr, work):
                for tag, b in bundles:
                    if tag == 'align':
                        ptr, al = b[0](st, fr), b[1](st, fr)
                        if al > 1:
                            if isinstance(ptr, int): ok = int(ptr % al == 0)
                            else: ok = simp((ptr & (al - 1)) == 0)
                            s.check(st, ok, 'ALIGN', f"assume_aligned<{al}> claim", aid=al)
                if not bundles:
                    c = args[0](st, fr)
                    s.check(st, s.as_bool(c) if not isinstance(c, int) else c, 'ASSUME', 'llvm.assume condition')
                done(st, fr)
            return run
        if name.startswith(('llvm.memcpy', 'llvm.memmove')):
            def run(st, fr, work):
                d, sr, n = args[0](st, fr), args[1](st, fr), args[2](st, fr)
                if not isinstance(n, int): n = simp(n)
                if isinstance(n, int) or s.abstract_memcpy:
                    s.memcpy(st, d, sr, n, name); return done(st, fr)
                # symbolic length outside Mode A: the bounds of both ranges are decided symbolically first (a violation ends the
                # path), then the length is case-split completely (like verif_fork)
                s.resolve_ptr(st, d, n, name + " dst"); s.resolve_ptr(st, sr, n, name + " src")
                vals = []; extra = []
                while True:
                    ok, m = s.sat(st, extra, True)
                    if not ok: break
                    x = m.eval(n, model_completion=True).as_long(); vals.append(x); extra.append(n != x)
                    if len(vals) > 96: raise Unsupported("symbolic memcpy length with more than 96 feasible values")
                if not vals: raise PathEnd()
                vals.sort()
                for x in vals[1:]:
                    o = st.clone(); o.pc.append(n == x); s.stats['forks'] += 1
                    try:
                        s.memcpy(o, d, sr, x, name); done(o, o.frames[-1]); work.append(o)
                    except Violation:
                        s.finish_path(o, False)
                st.pc.append(n == vals[0])
                s.memcpy(st, d, sr, vals[0], name); done(st, fr)
            return run
        if name.startswith('llvm.memset'):
            def run(st, fr, work):
                n = args[2](st, fr); d = args[0](st, fr); v = args[1](st, fr)
                if not isinstance(n, int): n = simp(n)
                if not isinstance(n, int): raise Unsupported("symbolic memset length")
                for i in range(n): s.store(st, s.add64(d, i), v, 1)
                done(st, fr)
            return run
        m = re.match(r'llvm\.(umax|umin|smax|smin)\.i(\d+)', name)
        if m:
            k, n = m.group(1), int(m.group(2))
            pred = {'umax': 'ugt', 'umin': 'ult', 'smax': 'sgt', 'smin': 'slt'}[k]
            def run(st, fr, work):
                a, b = args[0](st, fr), args[1](st, fr)
                c = s.icmp(pred, a, b, n)
                if isinstance(c, int): return done(st, fr, a if c else b)
                done(st, fr, simp(z3.If(c, bv(a, n), bv(b, n))))
            return run
        m = re.match(r'llvm\.(cttz|ctlz|ctpop|bswap|abs)\.i(\d+)', name)
        if m:
            k, n = m.group(1), int(m.group(2))
            def run(st, fr, work):
                a = args[0](st, fr)
                if isinstance(a, int):
                    if k == 'cttz': r = n if a == 0 else (a & -a).bit_length() - 1
                    elif k == 'ctlz': r = n - a.bit_length()
                    elif k == 'ctpop': r = bin(a).count('1')
                    elif k == 'abs': r = abs(to_signed(a, n)) & ((1 << n) - 1)
                    else: r = int.from_bytes(a.to_bytes(n // 8, 'little'), 'big')
                    return done(st, fr, r)
                if k == 'cttz':
                    r = z3.BitVecVal(n, n)
                    for i in reversed(range(n)): r = z3.If(z3.Extract(i, i, a) == 1, z3.BitVecVal(i, n), r)
                    return done(st, fr, simp(r))
                if k == 'ctlz':
                    r = z3.BitVecVal(n, n)
                    for i in range(n): r = z3.If(z3.Extract(i, i, a) == 1, z3.BitVecVal(n - 1 - i, n), r)
                    return done(st, fr, simp(r))
                raise Unsupported("symbolic " + name)
            return run
        m = re.match(r'llvm\.(uadd|usub)\.sat\.i(\d+)', name)
        if m:
            k, n = m.group(1), int(m.group(2)); M = (1 << n) - 1
            def run(st, fr, work):
                a, b = args[0](st, fr), args[1](st, fr)
                if isinstance(a, int) and isinstance(b, int):
                    return done(st, fr, (min(a + b, M) if k == 'uadd' else max(a - b, 0)))
                A, B = bv(a, n), bv(b, n)
                if k == 'usub': r = z3.If(z3.UGT(A, B), A - B, z3.BitVecVal(0, n))
                else: r = z3.If(z3.ULT(A + B, A), z3.BitVecVal(M, n), A + B)
                done(st, fr, simp(r))
            return run
        m = re.match(r'llvm\.(uadd|usub|umul|sadd|ssub|smul)\.with\.overflow\.i(\d+)', name)
        if m:
            k, n = m.group(1), int(m.group(2))
            def run(st, fr, work):
                a, b = args[0](st, fr), args[1](st, fr)
                if isinstance(a, int) and isinstance(b, int) and k[0] == 'u':
                    full = {'uadd': a + b, 'usub': a - b, 'umul': a * b}[k]
                    return done(st, fr, [full & ((1 << n) - 1), int(full < 0 or full >> n != 0)])
                A, B = bv(a, n), bv(b, n)
                if k == 'uadd': r = A + B; o = z3.ULT(r, A)
                elif k == 'usub': r = A - B; o = z3.ULT(A, B)
                elif k == 'umul':
                    w = z3.ZeroExt(n, A) * z3.ZeroExt(n, B); r = z3.Extract(n - 1, 0, w); o = z3.Extract(2 * n - 1, n, w) != 0
                else: raise Unsupported("signed overflow intrinsic")
                done(st, fr, [simp(r), simp(o)])
            return run
        if name.startswith('llvm.expect'): return lambda st, fr, work: done(st, fr, args[0](st, fr))
        if name.startswith('llvm.eh.typeid.for'): return lambda st, fr, work: done(st, fr, 1)
        if name.startswith('llvm.trap'):
            return lambda st, fr, work: s.violation(st, 'TRAP', 'llvm.trap')
        if name.startswith('llvm.objectsize'): return lambda st, fr, work: done(st, fr, MASK64)
        if name.startswith('llvm.is.constant'): return lambda st, fr, work: done(st, fr, 0)
        if name.startswith(('llvm.stacksave',)): return lambda st, fr, work: done(st, fr, 0)
        if name.startswith(('llvm.stackrestore',)): return lambda st, fr, work: done(st, fr)
        m = re.match(r'llvm\.(fshl|fshr)\.i(\d+)', name)
        if m:
            k, n = m.group(1), int(m.group(2))
            def run(st, fr, work):
                a, b, c = args[0](st, fr), args[1](st, fr), args[2](st, fr)
                if not isinstance(c, int): raise Unsupported("symbolic funnel shift amount")
                c %= n
                w = z3.Concat(bv(a, n), bv(b, n))
                r = z3.Extract(2 * n - 1 - c, n - c, w) if k == 'fshl' else z3.Extract(n - 1 + c, c, w)
                done(st, fr, simp(r))
            return run
        raise Unsupported("intrinsic " + name)

    # ------------------------------------------------------------ externals (harness intrinsics)
    def new_input(s, st, name, bits):
        idx = len(st.inputs)
        if s.pinned is not None:
            v = s.pinned[idx] & ((1 << bits) - 1) if idx < len(s.pinned) else 0
            st.inputs.append((name, v)); return v
        v = z3.BitVec(f"in{idx}_{name}", bits)
        st.inputs.append((name, v)); return v

    def ext_verif_nondet_size(s, st, fr, a, w): return s.new_input(st, 'size', 64)
    def ext_verif_nondet_u64(s, st, fr, a, w): return s.new_input(st, 'u64', 64)
    def ext_verif_nondet_u32(s, st, fr, a, w): return s.new_input(st, 'u32', 32)
    def ext_verif_nondet_u16(s, st, fr, a, w): return s.new_input(st, 'u16', 16)
    def ext_verif_nondet_u8(s, st, fr, a, w): return s.new_input(st, 'u8', 8)

    def ext_verif_assume(s, st, fr, a, w):
        c = a[0]
        if isinstance(c, int):
            if not c: raise PathEnd()
            return None
        c = simp(s.as_bool(c))
        if isinstance(c, int):
            if not c: raise PathEnd()
            return None
        ok, _ = s.sat(st, [c])
        if not ok: raise PathEnd()
        st.pc.append(c); return None

    def ext_verif_assert(s, st, fr, a, w):
        c = a[0]; aid = a[1]
        st.asserts_seen.add(aid)
        s.check(st, c if isinstance(c, int) else s.as_bool(c), 'PROP', f"harness assertion id={aid}", aid=aid)
        return None

    def ext_verif_fork(s, st, fr, a, w):
        v = a[0]
        if isinstance(v, int): return v
        if z3.is_bool(v): v = s.as_bv(v, 64)
        vals = []; extra = []
        while True:
            ok, m = s.sat(st, extra, True)
            if not ok: break
            x = m.eval(v, model_completion=True).as_long(); vals.append(x); extra.append(v != x)
            if len(vals) > 256: raise Unsupported("verif_fork domain larger than 256 values")
        if not vals: raise PathEnd()
        vals.sort()
        return Alt([(v == x, x, None) for x in vals])

    def ext_verif_note(s, st, fr, a, w):
        st.notes.append(a[0] if isinstance(a[0], int) else str(a[0])); return None

    def ext_verif_reach(s, st, fr, a, w):
        st.reached.add(a[0]); return None

    def ext_verif_observe(s, st, fr, a, w):
        v = a[0]
        st.observations.append(v if isinstance(v, int) else None); return None

    def ext_verif_alloc_fail(s, st, fr, a, w):
        if s.pinned is not None:
            return s.new_input(st, 'fail', 8) & 1
        v = s.new_input(st, 'fail', 8)
        return Alt([(v == 0, 0, None), (v == 1, 1, None)])

    def ext_verif_alloc(s, st, fr, a, w):
        bytes_, align, aid = a[0], a[1], a[2]
        if not isinstance(align, int): raise Unsupported("symbolic alignment")
        if not isinstance(bytes_, int): bytes_ = simp(bytes_)
        if not isinstance(bytes_, int):
            # block sizes must stay inside their 2^24 window
            lim = s.cfg.get('max_block', 1 << 23)
            ok, _ = s.sat(st, [z3.UGT(bytes_, lim)])
            if ok: s.violation(st, 'BOUNDS', f'allocation request may exceed {lim} bytes (size arithmetic wrapped or bound too small)')
        elif bytes_ > (1 << 23): s.violation(st, 'BOUNDS', f'allocation request of {bytes_} bytes (size arithmetic wrapped?)')
        if st.frozen_alloc_ids and isinstance(aid, int) and aid in st.frozen_alloc_ids:
            s.violation(st, 'RACE-WRITE', f'allocation through allocator instance {aid} of a shared container during a const operation (the allocator state is shared)')
        mode = s.slack_mode
        if s.pinned is not None: choices = [align if mode != 'zero' else 0]
        elif mode == 'both': choices = [align, 0]
        elif mode == 'zero': choices = [0]
        else: choices = [align]
        def mk(slack):
            def tag(o):
                r, addr = s.new_region(o, bytes_, 'heap', f"heap#{len(o.allocs)}", slack=slack)
                r.align = align; r.alloc_id = aid; r.order = len(o.allocs)
                o.allocs.append(r.rid); o.choices.append(slack)
                o.alloc_count += 1
                if isinstance(bytes_, int) and isinstance(o.bytes_req, int): o.bytes_req += bytes_
                else: o.bytes_req = simp(bv(o.bytes_req, 64) + bv(bytes_, 64))
                return addr
            return tag
        if len(choices) == 1:
            return mk(choices[0])(st)
        return Alt([(None, None, mk(c)) for c in choices])

    def ext_verif_free(s, st, fr, a, w):
        ptr, bytes_, align, aid = a
        if not isinstance(ptr, int): ptr = simp(ptr)
        if not isinstance(ptr, int): raise Unsupported("symbolic pointer passed to deallocate")
        rid = ptr >> WIN; r = st.regions.get(rid)
        if r is None or r.kind != 'heap' or (ptr & WMASK) != r.slack:
            s.violation(st, 'LEDGER', 'deallocate of a pointer that is not the base of a block obtained from allocate')
        if not r.live: s.violation(st, 'LEDGER', 'block deallocated twice')
        if r.frozen: s.violation(st, 'RACE-WRITE', 'deallocation of pre-existing memory during a const operation')
        if isinstance(bytes_, int) and isinstance(r.size, int):
            if bytes_ != r.size: s.violation(st, 'LEDGER', f'deallocate size {bytes_} differs from allocate size {r.size}')
        else:
            s.check(st, simp(bv(bytes_, 64) == bv(r.size, 64)), 'LEDGER', 'deallocate size differs from allocate size')
        if align != r.align: s.violation(st, 'LEDGER', f'deallocate through an allocator rebound to a different type (align {align} vs {r.align})')
        eq = s.cfg.get('alloc_equal')
        same = (aid == r.alloc_id) if eq is None else eq(aid, r.alloc_id)
        if isinstance(aid, int) and isinstance(r.alloc_id, int):
            if not same: s.violation(st, 'LEDGER', f'block allocated by allocator id {r.alloc_id} deallocated through unequal allocator id {aid}')
        else:
            s.check(st, simp(bv(aid, 32) == bv(r.alloc_id, 32)), 'LEDGER', 'block deallocated through an allocator that does not compare equal to the allocating one')
        r2 = r.clone() if not r.own else r
        r2.live = False; st.regions[rid] = r2
        # objects still alive inside a freed block
        for addr, (sz, live) in st.objs.items():
            if live and (addr >> WIN) == rid: s.violation(st, 'LIFETIME', 'block deallocated while an object in it is still alive (never destroyed)')
        return None

    def ext_verif_live_blocks(s, st, fr, a, w):
        return sum(1 for rid in st.allocs if st.regions[rid].live)
    def ext_verif_live_blocks_of(s, st, fr, a, w):
        al = a[0]
        return sum(1 for rid in st.allocs if st.regions[rid].live and st.regions[rid].align == al)
    def ext_verif_alloc_count(s, st, fr, a, w): return st.alloc_count
    def ext_verif_bytes_requested(s, st, fr, a, w): return st.bytes_req
    def ext_verif_block_size(s, st, fr, a, w):
        """size of the live heap block whose base is the argument, 0 if none"""
        ptr = a[0]
        if not isinstance(ptr, int): ptr = simp(ptr)
        if not isinstance(ptr, int): raise Unsupported("symbolic pointer in verif_block_size")
        r = st.regions.get(ptr >> WIN)
        if r is None or r.kind != 'heap' or not r.live or (ptr & WMASK) != r.slack: return 0
        return r.size
    def ext_verif_in_live_block(s, st, fr, a, w):
        """1 if [p, p+n) lies inside (or one past, for n==0) a live heap block, or p is null and n == 0"""
        ptr, n = a
        if not isinstance(ptr, int): ptr = simp(ptr)
        if not isinstance(ptr, int):
            ok, m = s.sat(st, [], True)
            val = m.eval(ptr, model_completion=True).as_long(); rid = val >> WIN
            other, _ = s.sat(st, [z3.LShR(ptr, WIN) != rid])
            if other: return 0
            r = st.regions.get(rid)
            if r is None or r.kind != 'heap' or not r.live: return 0
            off = simp(ptr - ((rid << WIN) + r.slack))
            return simp(z3.And(z3.ULE(bv(off, 64), bv(r.size, 64)), z3.ULE(bv(n, 64), bv(r.size, 64) - bv(off, 64))))
        if ptr == 0: return simp(bv(n, 64) == 0) if not isinstance(n, int) else int(n == 0)
        r = st.regions.get(ptr >> WIN)
        if r is None or r.kind != 'heap' or not r.live: return 0
        off = (ptr & WMASK) - r.slack
        if off < 0: return 0
        if isinstance(r.size, int) and isinstance(n, int): return int(off + n <= r.size)
        return simp(z3.And(z3.ULE(bv(off, 64), bv(r.size, 64)), z3.ULE(bv(n, 64), bv(r.size, 64) - bv(off, 64))))

    def ext_verif_obj(s, st, fr, a, w):
        """lifetime ledger. ev: 0 ctor, 1 copy-ctor, 2 move-ctor, 3 dtor, 4 use (assign/read) of self, 5 begin-write, 6 end-write.
        other = source object for 1/2; a[3] = sizeof"""
        self_, ev, other, size = a
        if ev == 5: st.writing += 1; return None
        if ev == 6: st.writing -= 1; return None
        if not isinstance(self_, int): self_ = simp(self_)
        if not isinstance(self_, int): raise Unsupported("symbolic object address in lifetime ledger")
        objs = st.objs
        cur = objs.get(self_)
        if ev in (0, 1, 2):
            if cur and cur[1]: s.violation(st, 'LIFETIME', f'object constructed on top of a live object')
            for addr, (sz, live) in objs.items():
                if live and addr != self_ and addr < self_ + size and self_ < addr + sz:
                    s.violation(st, 'LIFETIME', 'object constructed overlapping a live object')
            if ev in (1, 2):
                if not isinstance(other, int): other = simp(other)
                o = objs.get(other)
                if not (o and o[1]): s.violation(st, 'LIFETIME', 'copy/move construction from an object that is not alive')
            objs[self_] = (size, True)
        elif ev == 3:
            if not (cur and cur[1]): s.violation(st, 'LIFETIME', 'destructor run on an object that is not alive (double destruction or never constructed)')
            objs[self_] = (size, False)
        elif ev == 4:
            if not (cur and cur[1]): s.violation(st, 'LIFETIME', 'object used (read/assigned) while not alive')
        return None

    def ext_verif_live_objs(s, st, fr, a, w):
        return sum(1 for k, v in st.objs.items() if v[1] and (k >> WIN) in st.regions and st.regions[k >> WIN].kind == 'heap')
    def ext_verif_live_objs_all(s, st, fr, a, w):
        return sum(1 for k, v in st.objs.items() if v[1])

    def ext_verif_freeze(s, st, fr, a, w):
        for rid, r in list(st.regions.items()):
            if r.live and r.kind in ('heap', 'stack', 'global'):
                r2 = r.clone() if not r.own else r
                r2.frozen = True; st.regions[rid] = r2
        return None
    def ext_verif_freeze_allocs(s, st, fr, a, w):
        """the allocator instances of all live blocks become shared state: allocating / deallocating through them is a write"""
        st.frozen_alloc_ids = frozenset(st.regions[rid].alloc_id for rid in st.allocs if st.regions[rid].live and isinstance(st.regions[rid].alloc_id, int))
        return None

    def ext_verif_thaw(s, st, fr, a, w):
        st.frozen_alloc_ids = frozenset()
        for rid, r in list(st.regions.items()):
            if r.frozen:
                r2 = r.clone() if not r.own else r
                r2.frozen = False; st.regions[rid] = r2
        return None
    def ext_verif_thaw_obj(s, st, fr, a, w):
        """make the region containing the pointer writable again (scratch output slots of the harness)"""
        ptr = a[0]
        r = st.regions.get(ptr >> WIN)
        if r is not None:
            r2 = r.clone() if not r.own else r
            r2.frozen = False; st.regions[ptr >> WIN] = r2
        return None

    def ext_memcmp(s, st, fr, a, w):
        p1, p2, n = a
        if not isinstance(n, int): n = simp(n)
        if not isinstance(n, int): raise Unsupported("symbolic memcmp length")
        if n == 0: return 0
        r1, o1 = s.resolve_ptr(st, p1, n, 'memcmp'); r2, o2 = s.resolve_ptr(st, p2, n, 'memcmp')
        res = z3.BitVecVal(0, 32); conc = 0; allc = True
        for i in reversed(range(n)):
            x = s.load_byte(r1, o1 + i if isinstance(o1, int) else simp(o1 + i)); y = s.load_byte(r2, o2 + i if isinstance(o2, int) else simp(o2 + i))
            if isinstance(x, LazyByte): x = x.get()
            if isinstance(y, LazyByte): y = y.get()
            if isinstance(x, int) and isinstance(y, int) and allc:
                if x != y: conc = 0xffffffff if x < y else 1
                continue
            if allc: res = z3.BitVecVal(conc, 32); allc = False
            x = bv(x, 8); y = bv(y, 8)
            res = z3.If(x == y, res, z3.If(z3.ULT(x, y), z3.BitVecVal(0xffffffff, 32), z3.BitVecVal(1, 32)))
        return conc if allc else simp(res)
    ext_bcmp = ext_memcmp

    def ext_memset(s, st, fr, a, w):
        d, v, n = a
        if not isinstance(n, int): n = simp(n)
        if not isinstance(n, int): raise Unsupported("symbolic memset length")
        if not isinstance(v, int): v = simp(z3.Extract(7, 0, v))
        else: v &= 0xff
        if n:
            r, off = s.resolve_ptr(st, d, n, 'memset')
            s.on_write(st, r, off, n, 'memset')
            if isinstance(off, int) and not r.symw:
                mem = r.wmem()
                for i in range(n): mem[off + i] = v
            else:
                for i in range(n): s.store_byte(r, simp(off + i) if not isinstance(off, int) else off + i, v)
        return d

    def ext_memcpy(s, st, fr, a, w):
        s.memcpy(st, a[0], a[1], a[2], 'llvm.memcpy (libc call)'); return a[0]

    def ext_memmove(s, st, fr, a, w):
        s.memcpy(st, a[0], a[1], a[2], 'llvm.memmove (libc call)'); return a[0]

    def ext___assert_fail(s, st, fr, a, w): s.violation(st, 'ASSERT', 'library assert() failed')
    def ext__ZSt9terminatev(s, st, fr, a, w): s.violation(st, 'TERMINATE', 'std::terminate called')
    def ext___clang_call_terminate(s, st, fr, a, w): s.violation(st, 'TERMINATE', 'std::terminate: exception left a noexcept function')
    def ext_abort(s, st, fr, a, w): s.violation(st, 'TERMINATE', 'abort()')
    def ext___cxa_allocate_exception(s, st, fr, a, w):
        r, addr = s.new_region(st, max(a[0], 1), 'exc', 'exception'); return addr
    def ext___cxa_throw(s, st, fr, a, w):
        st.exc = a[0]; return THROW
    def ext___cxa_begin_catch(s, st, fr, a, w): return a[0]
    def ext___cxa_end_catch(s, st, fr, a, w): return None
    def ext___cxa_rethrow(s, st, fr, a, w):
        st.exc = 1; return THROW
    def ext__ZSt17__throw_bad_allocv(s, st, fr, a, w):
        st.exc = 1; return THROW
    def ext__ZSt28__throw_bad_array_new_lengthv(s, st, fr, a, w):
        st.exc = 1; return THROW
    def ext__ZSt20__throw_length_errorPKc(s, st, fr, a, w):
        st.exc = 1; return THROW
    def ext__Znwm(s, st, fr, a, w): s.violation(st, 'FOREIGN-ALLOC', 'operator new called: memory obtained from outside the allocator')
    def ext__Znam(s, st, fr, a, w): s.violation(st, 'FOREIGN-ALLOC', 'operator new[] called: memory obtained from outside the allocator')
    def ext__ZnwmSt11align_val_t(s, st, fr, a, w): s.violation(st, 'FOREIGN-ALLOC', 'aligned operator new called: memory obtained from outside the allocator')
    def ext_malloc(s, st, fr, a, w): s.violation(st, 'FOREIGN-ALLOC', 'malloc called: memory obtained from outside the allocator')
    def ext__ZdlPv(s, st, fr, a, w): s.violation(st, 'FOREIGN-ALLOC', 'operator delete called')
    def ext__ZdlPvm(s, st, fr, a, w): s.violation(st, 'FOREIGN-ALLOC', 'operator delete called')


def load_module(path):
    return parse_module(open(path).read())
