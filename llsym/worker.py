#!/usr/bin/env python3-vt
"""Run one obligation: compile the harness against /repo's working tree to LLVM IR, execute it symbolically,
return a JSON-able result. Also usable from the command line for debugging:

    python3-vt llsym/worker.py harness/h_seq.cpp -DLIST=... [--entry h_entry] [--slack both] [--abstract-memcpy]
"""
import sys, os, subprocess, time, json, tempfile, hashlib, shutil, traceback, resource
HERE = os.path.dirname(os.path.abspath(__file__))
VERIF = os.path.dirname(HERE)
sys.path.insert(0, HERE)
REPO_SRC = os.environ.get('VERIF_REPO_SRC', '/repo/src')

CLANG_FLAGS = ['-std=c++17', '-O1', '-fno-rtti', '-fno-vectorize', '-fno-slp-vectorize', '-fno-unroll-loops',
               '-fno-builtin-memset', '-Wno-everything', '-ferror-limit=3']


def compile_ir(harness, defines, outdir, exceptions=False, tag='ob'):
    out = os.path.join(outdir, tag + '.ll')
    cmd = ['clang++-14'] + CLANG_FLAGS + ([] if exceptions else ['-fno-exceptions']) + \
          ['-I' + REPO_SRC, '-I' + os.path.join(VERIF, 'harness')] + list(defines) + ['-S', '-emit-llvm', harness, '-o', out]
    t0 = time.time()
    r = subprocess.run(cmd, capture_output=True, text=True)
    return out, r.returncode, r.stderr, time.time() - t0, cmd


def classify_compile_error(stderr):
    """'library' if the first error is located in a header under the repo source tree, else 'harness'"""
    for ln in stderr.splitlines():
        if ': error:' in ln or ': fatal error:' in ln:
            path = ln.split(':', 1)[0]
            if os.path.abspath(path).startswith(os.path.abspath(REPO_SRC)): return 'library', ln
            return 'harness', ln
    return 'harness', stderr[:300]


def run_obligation(ob, workdir):
    """ob: dict(name, harness, defines[], entry, cfg{}, exceptions)"""
    import engine
    res = dict(name=ob['name'], status='error', violations=[], stats={}, detail='')
    t0 = time.time()
    ll, rc, err, ct, cmd = compile_ir(os.path.join(VERIF, 'harness', ob['harness']), ob.get('defines', []), workdir,
                                      ob.get('exceptions', False), tag=hashlib.md5(ob['name'].encode()).hexdigest()[:12])
    res['compile_s'] = round(ct, 2)
    if rc != 0:
        where, line = classify_compile_error(err)
        res['status'] = 'compile_error_library' if where == 'library' else 'compile_error_harness'
        res['detail'] = err[:4000]; res['first_error'] = line
        return res
    try:
        mod = engine.load_module(ll)
        cfg = dict(ob.get('cfg', {}))
        if 'budget_s' in cfg: cfg['deadline'] = time.time() + cfg['budget_s']
        dump = [] if cfg.get('dump') else None
        if dump is not None: cfg['dump_queries'] = dump
        ex = engine.Executor(mod, cfg)
        ex.run(ob.get('entry', 'h_entry'))
        st = ex.stats
        res['stats'] = {k: (round(v, 3) if isinstance(v, float) else v) for k, v in st.items()}
        res['funcs'] = sorted(ex.funcs_entered)
        res['violations'] = ex.violations
        res['reached'] = sorted(ex.reach_all)
        res['asserts'] = sorted(ex.asserts_all)
        res['samples'] = ex.sample_paths
        res['observations'] = ex.observations
        if dump is not None: res['smt2'] = dump
        res['status'] = 'violations' if ex.violations else 'ok'
        if any(v['kind'] == 'BOUND' for v in ex.violations): res['status'] = 'bound_exceeded'
    except engine.Unsupported as e:
        res['status'] = 'unsupported'; res['detail'] = str(e)
    except Exception as e:
        res['status'] = 'error'; res['detail'] = traceback.format_exc()[-3000:]
    finally:
        try: os.remove(ll)
        except OSError: pass
    res['wall_s'] = round(time.time() - t0, 2)
    res['rss_mb'] = resource.getrusage(resource.RUSAGE_SELF).ru_maxrss // 1024
    return res


def main():
    import argparse
    ap = argparse.ArgumentParser()
    ap.add_argument('harness'); ap.add_argument('--entry', default='h_entry'); ap.add_argument('--slack', default='min')
    ap.add_argument('--abstract-memcpy', action='store_true'); ap.add_argument('--exceptions', action='store_true')
    ap.add_argument('--pin', default=None, help='comma separated concrete inputs'); ap.add_argument('--budget', type=float, default=600)
    ap.add_argument('--full', action='store_true')
    args, defines = ap.parse_known_args()
    cfg = dict(slack=args.slack, abstract_memcpy=args.abstract_memcpy, budget_s=args.budget)
    if args.pin is not None: cfg['pinned_inputs'] = [int(x, 0) for x in args.pin.split(',') if x]
    ob = dict(name='cli', harness=os.path.basename(args.harness), defines=defines, entry=args.entry, cfg=cfg, exceptions=args.exceptions)
    d = tempfile.mkdtemp(prefix='llsym-')
    try:
        r = run_obligation(ob, d)
    finally:
        shutil.rmtree(d, ignore_errors=True)
    vs = r.pop('violations'); funcs = r.pop('funcs', [])
    r.pop('samples', None)
    print(json.dumps(r)[:3000] if not args.full else json.dumps(r))
    for v in vs:
        print("VIOL", v['kind'], v['msg'], 'in', v['function'][:80], 'inputs', [x[1] for x in v['inputs']], 'choices', v['choices'])
    print("violations:", len(vs))


if __name__ == '__main__':
    main()
