#!/usr/bin/env python3
"""Prototype LLVM-14 textual IR -> C translator (typed pointers) for CBMC.
All pointers become `unsigned char*`; integers exact-width unsigned; memory accesses are casts.
"""
import re, sys

class Ty:
    pass
class IntTy(Ty):
    def __init__(s, n): s.n = n
    def __repr__(s): return f"i{s.n}"
class FloatTy(Ty):
    def __init__(s, k): s.k = k
    def __repr__(s): return s.k
class PtrTy(Ty):
    def __init__(s, to): s.to = to
    def __repr__(s): return f"{s.to}*"
class ArrTy(Ty):
    def __init__(s, n, el): s.n = n; s.el = el
    def __repr__(s): return f"[{s.n} x {s.el}]"
class VecTy(Ty):
    def __init__(s, n, el): s.n = n; s.el = el
    def __repr__(s): return f"<{s.n} x {s.el}>"
class StructTy(Ty):
    def __init__(s, els, packed=False): s.els = els; s.packed = packed
    def __repr__(s): return ("<{" if s.packed else "{") + ", ".join(map(repr, s.els)) + ("}>" if s.packed else "}")
class NamedTy(Ty):
    def __init__(s, name): s.name = name
    def __repr__(s): return s.name
class VoidTy(Ty):
    def __repr__(s): return "void"
class FuncTy(Ty):
    def __init__(s, ret, args, va): s.ret = ret; s.args = args; s.va = va
    def __repr__(s): return f"{s.ret} (...)"
class OpaqueTy(Ty):
    def __repr__(s): return "opaque"
class MetaTy(Ty):
    def __repr__(s): return "metadata"

TOKEN = re.compile(r'''\s*(
    c"(?:[^"\\]|\\[0-9A-Fa-f]{2}|\\\\)*" |
    [%@]"(?:[^"\\]|\\.)*" | [%@][-a-zA-Z$._0-9]+ |
    ![-a-zA-Z$._0-9]+ | !\{ | !" (?:[^"\\]|\\.)* " |
    "(?:[^"\\]|\\.)*" |
    \.\.\. |
    -?0x[0-9A-Fa-f]+ | -?[0-9]+\.[0-9]*(?:e[-+]?[0-9]+)? | -?[0-9]+ |
    <\{ | \}> |
    [a-zA-Z_][a-zA-Z0-9_.]* |
    [\[\](){}<>,=*\#] )''', re.X)

def tokenize(s):
    out = []; pos = 0
    while pos < len(s):
        m = TOKEN.match(s, pos)
        if not m:
            if s[pos:].strip() == "": break
            raise ValueError("tokenize: " + s[pos:pos+40])
        out.append(m.group(1)); pos = m.end()
    return out

class Module:
    def __init__(s):
        s.types = {}; s.globals = {}; s.funcs = {}; s.decls = {}

class P:
    """token stream parser"""
    def __init__(s, toks, mod): s.t = toks; s.i = 0; s.mod = mod
    def peek(s, k=0): return s.t[s.i+k] if s.i+k < len(s.t) else None
    def next(s): v = s.t[s.i]; s.i += 1; return v
    def eat(s, v):
        if s.peek() == v: s.i += 1; return True
        return False
    def expect(s, v):
        if s.next() != v: raise ValueError(f"expected {v} got {s.t[s.i-1]} in {' '.join(s.t)}")
    def type(s):
        t = s.next()
        if re.fullmatch(r'i[0-9]+', t): ty = IntTy(int(t[1:]))
        elif t in ('float', 'double', 'half', 'x86_fp80', 'fp128'): ty = FloatTy(t)
        elif t == 'void': ty = VoidTy()
        elif t == 'opaque': ty = OpaqueTy()
        elif t == 'metadata': ty = MetaTy()
        elif t == 'label': ty = MetaTy()
        elif t == 'ptr': ty = PtrTy(IntTy(8))
        elif t[0] == '%': ty = NamedTy(t)
        elif t == '[':
            n = int(s.next()); s.expect('x'); el = s.type(); s.expect(']'); ty = ArrTy(n, el)
        elif t == '<':
            n = int(s.next()); s.expect('x'); el = s.type(); s.expect('>'); ty = VecTy(n, el)
        elif t == '{' or t == '<{':
            els = []
            close = '}' if t == '{' else '}>'
            if not s.eat(close):
                while True:
                    els.append(s.type())
                    if s.eat(close): break
                    s.expect(',')
            ty = StructTy(els, t == '<{')
        else:
            raise ValueError("type? " + t + " in " + ' '.join(s.t[:s.i+3]))
        while True:
            if s.peek() == '*': s.next(); ty = PtrTy(ty)
            elif s.peek() == 'addrspace':
                s.next(); s.expect('('); s.next(); s.expect(')')
            elif s.peek() == '(':
                # function type
                s.next(); args = []; va = False
                if not s.eat(')'):
                    while True:
                        if s.eat('...'): va = True
                        else: args.append(s.type())
                        if s.eat(')'): break
                        s.expect(',')
                ty = FuncTy(ty, args, va)
            else: break
        return ty

def resolve(mod, ty):
    while isinstance(ty, NamedTy): ty = mod.types[ty.name]
    return ty

def sizeof(mod, ty):
    ty = resolve(mod, ty)
    if isinstance(ty, IntTy): return {1:1}.get(ty.n, (ty.n + 7)//8 if ty.n <= 64 else ((ty.n+63)//64)*8) if ty.n not in (8,16,32,64) else ty.n//8
    if isinstance(ty, FloatTy): return {'float':4,'double':8,'half':2,'x86_fp80':16,'fp128':16}[ty.k]
    if isinstance(ty, PtrTy): return 8
    if isinstance(ty, ArrTy): return ty.n * sizeof(mod, ty.el)
    if isinstance(ty, VecTy): return ty.n * sizeof(mod, ty.el)
    if isinstance(ty, StructTy): return struct_layout(mod, ty)[1]
    if isinstance(ty, (OpaqueTy, VoidTy, FuncTy)): return 1
    raise ValueError(f"sizeof {ty}")

def alignof(mod, ty):
    ty = resolve(mod, ty)
    if isinstance(ty, IntTy):
        b = sizeof(mod, ty);
        a = 1
        while a < b and a < 8: a *= 2
        if ty.n > 64: a = 16 if ty.n >= 128 else 8
        return a
    if isinstance(ty, FloatTy): return {'float':4,'double':8,'half':2,'x86_fp80':16,'fp128':16}[ty.k]
    if isinstance(ty, PtrTy): return 8
    if isinstance(ty, ArrTy): return alignof(mod, ty.el)
    if isinstance(ty, VecTy): return min(sizeof(mod, ty), 16)
    if isinstance(ty, StructTy):
        if ty.packed: return 1
        return max([alignof(mod, e) for e in ty.els] or [1])
    return 1

def struct_layout(mod, ty):
    offs = []; o = 0
    for e in ty.els:
        a = 1 if ty.packed else alignof(mod, e)
        o = (o + a - 1)//a*a
        offs.append(o); o += sizeof(mod, e)
    a = alignof(mod, ty)
    o = (o + a - 1)//a*a
    return offs, o

def cname(n):
    n = n[1:]
    if n.startswith('"'): n = n[1:-1]
    return re.sub(r'[^A-Za-z0-9_]', lambda m: '_%02x' % ord(m.group(0)), n)

class Val:
    """operand: kind in (local, global, const-int, const-fp, null, undef, cexpr, zero, agg)"""
    def __init__(s, ty, c): s.ty = ty; s.c = c

class FnTranslator:
    def __init__(s, mod, out): s.mod = mod; s.out = out

def ctype(mod, ty):
    ty = resolve(mod, ty)
    if isinstance(ty, IntTy):
        if ty.n == 1: return "_Bool"
        if ty.n in (8,16,32,64): return f"uint{ty.n}_t"
        return f"unsigned __CPROVER_bitvector[{ty.n}]"
    if isinstance(ty, FloatTy): return {'float':'float','double':'double'}.get(ty.k, 'long double')
    if isinstance(ty, PtrTy): return "unsigned char*"
    if isinstance(ty, (StructTy, ArrTy)): return agg_ctype(mod, ty)
    if isinstance(ty, VoidTy): return "void"
    raise ValueError(f"ctype {ty}")

AGG = {}
AGG_DEFS = []
def agg_ctype(mod, ty):
    key = repr(ty)
    if key in AGG: return AGG[key]
    name = f"agg{len(AGG)}"
    AGG[key] = "struct " + name
    if isinstance(ty, StructTy):
        fields = "".join(f" {ctype(mod, e)} f{i};" for i, e in enumerate(ty.els))
    else:
        fields = f" {ctype(mod, ty.el)} a[{max(ty.n,1)}];"
    AGG_DEFS.append(f"struct {name} {{{fields} }};")
    return AGG[key]

def parse_module(text):
    mod = Module()
    lines = text.split('\n')
    i = 0
    # first pass: types
    for ln in lines:
        m = re.match(r'^(%"(?:[^"\\]|\\.)*"|%[-a-zA-Z$._0-9]+) = type (.*)$', ln)
        if m:
            mod.types[m.group(1)] = (m.group(2),)
    for k, (v,) in list(mod.types.items()):
        mod.types[k] = P(tokenize(v), mod).type()
    while i < len(lines):
        ln = lines[i]
        if ln.startswith('define '):
            body = []
            hdr = ln
            i += 1
            while lines[i] != '}':
                body.append(lines[i]); i += 1
            parse_function(mod, hdr, body)
        elif ln.startswith('declare '):
            parse_decl(mod, ln)
        elif ln.startswith('@'):
            parse_global(mod, ln)
        i += 1
    return mod

LINKAGE = {'fastcc','ccc','coldcc','private','internal','available_externally','linkonce','weak','common','appending','extern_weak','linkonce_odr','weak_odr','external','dso_local','dso_preemptable','hidden','protected','default','unnamed_addr','local_unnamed_addr','thread_local','externally_initialized'}
PARAM_ATTRS = {'noundef','nonnull','noalias','nocapture','readonly','writeonly','readnone','zeroext','signext','inreg','returned','immarg','nofree','nest','swiftself','noreturn'}

def skip_attrs(p):
    while True:
        t = p.peek()
        if t in PARAM_ATTRS: p.next()
        elif t in ('align', 'dereferenceable', 'dereferenceable_or_null'):
            p.next()
            if p.eat('('): p.next(); p.expect(')')
            else: p.next()
        elif t in ('sret', 'byval', 'byref', 'inalloca', 'preallocated', 'elementtype'):
            p.next(); p.expect('('); p.type(); p.expect(')')
        else: break

def parse_global(mod, ln):
    m = re.match(r'^(@"(?:[^"\\]|\\.)*"|@[-a-zA-Z$._0-9]+) = (.*)$', ln)
    name, rest = m.group(1), m.group(2)
    rest = re.sub(r', (align|comdat|section|!dbg).*$', '', rest)
    rest = re.sub(r',? comdat.*$', '', rest)
    p = P(tokenize(rest), mod)
    while p.peek() in LINKAGE: p.next()
    if p.peek() == 'alias':
        mod.globals[name] = ('alias', rest); return
    kind = p.next()  # global | constant
    ty = p.type()
    init = None
    if p.peek() is not None:
        init = parse_const(p, ty)
    mod.globals[name] = (kind, ty, init)

def parse_const(p, ty):
    """returns Val with c = ('int', v) | ('fp', text) | ('null',) | ('undef',) | ('zero',) | ('global', name) | ('agg', [Val]) | ('str', bytes) | ('cexpr', op, ...)"""
    t = p.next()
    if t in ('true', 'false'): return Val(ty, ('int', 1 if t == 'true' else 0))
    if re.fullmatch(r'-?[0-9]+', t):
        if isinstance(resolve(p.mod, ty), FloatTy): return Val(ty, ('fp', t))
        return Val(ty, ('int', int(t)))
    if re.fullmatch(r'-?[0-9]+\.[0-9]*(e[-+]?[0-9]+)?', t): return Val(ty, ('fp', t))
    if t.startswith('0x') or t.startswith('-0x'): return Val(ty, ('fphex', t))
    if t == 'null': return Val(ty, ('null',))
    if t in ('undef', 'poison'): return Val(ty, ('undef',))
    if t == 'zeroinitializer': return Val(ty, ('zero',))
    if t[0] == '@': return Val(ty, ('global', t))
    if t[0] == '%': return Val(ty, ('local', t))
    if t.startswith('c"'):
        s = t[2:-1]; b = bytearray(); i = 0
        while i < len(s):
            if s[i] == '\\':
                if s[i+1] == '\\': b.append(92); i += 2
                else: b.append(int(s[i+1:i+3], 16)); i += 3
            else: b.append(ord(s[i])); i += 1
        return Val(ty, ('str', bytes(b)))
    if t in ('{', '[', '<{', '<'):
        close = {'{':'}', '[':']', '<{':'}>', '<':'>'}[t]
        els = []
        if not p.eat(close):
            while True:
                ety = p.type(); els.append(parse_const(p, ety))
                if p.eat(close): break
                p.expect(',')
        return Val(ty, ('agg', els))
    if t in ('getelementptr', 'bitcast', 'ptrtoint', 'inttoptr', 'trunc', 'zext', 'sext', 'add', 'sub', 'mul', 'and', 'or', 'xor', 'shl', 'lshr', 'ashr', 'icmp', 'select', 'addrspacecast'):
        return Val(ty, parse_cexpr(p, t))
    raise ValueError("const? " + t + " :: " + ' '.join(p.t))

def parse_cexpr(p, op):
    if op == 'getelementptr':
        p.eat('inbounds')
        p.expect('(')
        sty = p.type(); p.expect(',')
        bty = p.type(); base = parse_const(p, bty)
        idx = []
        while p.eat(','):
            p.eat('inrange')
            ity = p.type(); idx.append(parse_const(p, ity))
        p.expect(')')
        return ('cexpr', 'gep', sty, base, idx)
    if op in ('bitcast', 'ptrtoint', 'inttoptr', 'trunc', 'zext', 'sext', 'addrspacecast'):
        p.expect('(')
        fty = p.type(); v = parse_const(p, fty); p.expect('to'); tty = p.type(); p.expect(')')
        return ('cexpr', op, v, tty)
    if op in ('add', 'sub', 'mul', 'and', 'or', 'xor', 'shl', 'lshr', 'ashr'):
        while p.peek() in ('nuw', 'nsw', 'exact'): p.next()
        p.expect('(')
        aty = p.type(); a = parse_const(p, aty); p.expect(',')
        bty = p.type(); b = parse_const(p, bty); p.expect(')')
        return ('cexpr', op, a, b)
    if op == 'icmp':
        pred = p.next(); p.expect('(')
        aty = p.type(); a = parse_const(p, aty); p.expect(',')
        bty = p.type(); b = parse_const(p, bty); p.expect(')')
        return ('cexpr', 'icmp', pred, a, b)
    raise ValueError("cexpr " + op)

def parse_decl(mod, ln):
    m = re.search(r'(@"(?:[^"\\]|\\.)*"|@[-a-zA-Z$._0-9]+)\(', ln)
    mod.decls[m.group(1)] = ln

class Func:
    pass

def parse_function(mod, hdr, body):
    f = Func()
    m = re.search(r'(@"(?:[^"\\]|\\.)*"|@[-a-zA-Z$._0-9]+)\(', hdr)
    f.name = m.group(1)
    pre = hdr[len('define '):m.start()]
    p = P(tokenize(pre), mod)
    while p.peek() in LINKAGE or p.peek() in PARAM_ATTRS or p.peek() in ('align','dereferenceable','dereferenceable_or_null'):
        if p.peek() in LINKAGE: p.next()
        else: skip_attrs(p)
    f.ret = p.type()
    # params: find matching paren
    depth = 0; j = m.end() - 1
    start = j
    while True:
        if hdr[j] == '(': depth += 1
        elif hdr[j] == ')':
            depth -= 1
            if depth == 0: break
        j += 1
    ptxt = hdr[start+1:j]
    p = P(tokenize(ptxt), mod)
    f.params = []
    f.va = False
    while p.peek() is not None:
        if p.eat('...'): f.va = True; break
        ty = p.type(); skip_attrs(p)
        nm = p.next()
        f.params.append((ty, nm))
        p.eat(',')
    f.personality = 'personality' in hdr[j:]
    # blocks
    f.blocks = []  # (label, [instr lines])
    cur = None
    # first block label: implicit = number of params (unnamed counter)
    for ln in body:
        ln2 = ln.strip()
        if not ln2 or ln2.startswith(';'): continue
        m2 = re.match(r'^("(?:[^"\\]|\\.)*"|[-a-zA-Z$._0-9]+):', ln)
        if m2:
            cur = ('%' + m2.group(1), []); f.blocks.append(cur); continue
        if cur is None:
            cur = (None, []); f.blocks.append(cur)
        if cur[1] and (ln2.startswith('to label ') or ln2.startswith('catch ') or ln2 == 'cleanup' or ln2.startswith('filter ')):
            cur[1][-1] += ' ' + ln2
        elif cur[1] and cur[1][-1].startswith('switch ') and not cur[1][-1].endswith(']'):
            cur[1][-1] += ' ' + ln2
        else:
            cur[1].append(ln2)
    mod.funcs[f.name] = f

# ---------------------------------------------------------------- emission

class Emit:
    def __init__(s, mod):
        s.mod = mod; s.lines = []
        s.tmp = 0
        s.global_sizes = {}

    def lname(s, n): return "v_" + cname(n)
    def gname(s, n): return "g_" + cname(n)
    def fname(s, n):
        n2 = cname(n)
        return n2

    def const(s, v, want_ty=None):
        """C expression for constant/operand Val"""
        ty = resolve(s.mod, v.ty); c = v.c
        k = c[0]
        if k == 'local': return s.lname(c[1])
        if k == 'int':
            if isinstance(ty, IntTy):
                val = c[1] & ((1 << ty.n) - 1)
                if ty.n == 1: return str(val)
                if ty.n <= 64: return f"(({ctype(s.mod, ty)}){val}ULL)"
                # wide
                hi = val >> 64; lo = val & (2**64-1)
                ct = ctype(s.mod, ty)
                return f"(((({ct}){hi}ULL) << 64) | (({ct}){lo}ULL))"
            raise ValueError("int const of type %r" % ty)
        if k == 'fp':
            return f"(({ctype(s.mod, ty)}){c[1]})"
        if k == 'fphex':
            h = int(c[1], 16)
            import struct as _st
            d = _st.unpack('<d', _st.pack('<Q', h))[0]
            if d != d: return "(0.0/0.0)"
            if d in (float('inf'), float('-inf')): return "(1.0/0.0)" if d > 0 else "(-1.0/0.0)"
            return f"(({ctype(s.mod, ty)}){d!r})"
        if k == 'null': return "((unsigned char*)0)"
        if k in ('undef', 'zero'):
            if isinstance(ty, (StructTy, ArrTy)): return f"(({ctype(s.mod, ty)}){{0}})"
            if isinstance(ty, PtrTy): return "((unsigned char*)0)"
            return f"(({ctype(s.mod, ty)})0)"
        if k == 'global':
            if c[1] in s.mod.funcs or c[1] in s.mod.decls: return f"((unsigned char*)&{s.fname(c[1])})"
            return f"((unsigned char*){s.gname(c[1])})"
        if k == 'cexpr':
            op = c[1]
            if op == 'gep':
                base = s.const(c[3]); off = s.gep_offset(c[2], c[4])
                return f"({base} + {off})"
            if op in ('bitcast', 'addrspacecast'): return s.const(c[2])
            if op == 'ptrtoint': return f"(({ctype(s.mod, c[3])})(uintptr_t){s.const(c[2])})"
            if op == 'inttoptr': return f"((unsigned char*)(uintptr_t){s.const(c[2])})"
            if op in ('trunc', 'zext'): return f"(({ctype(s.mod, c[3])}){s.const(c[2])})"
            if op in ('add', 'sub', 'mul', 'and', 'or', 'xor', 'shl'):
                sym = {'add':'+','sub':'-','mul':'*','and':'&','or':'|','xor':'^','shl':'<<'}[op]
                return f"(({ctype(s.mod, v.ty)})({s.const(c[2])} {sym} {s.const(c[3])}))"
            raise ValueError("cexpr emit " + op)
        if k == 'agg':
            if isinstance(ty, StructTy):
                return f"(({ctype(s.mod, ty)}){{" + ", ".join(s.const(e) for e in c[1]) + "})"
            return f"(({ctype(s.mod, ty)}){{{{" + ", ".join(s.const(e) for e in c[1]) + "}})"
        raise ValueError("const emit %r" % (c,))

    def gep_offset(s, sty, idx):
        """C expression (int64) of byte offset"""
        terms = []; cur = sty; const_off = 0
        for n, iv in enumerate(idx):
            if n == 0:
                sz = sizeof(s.mod, cur)
            else:
                r = resolve(s.mod, cur)
                if isinstance(r, StructTy):
                    assert iv.c[0] == 'int'
                    offs, _ = struct_layout(s.mod, r)
                    const_off += offs[iv.c[1]]
                    cur = r.els[iv.c[1]]
                    continue
                elif isinstance(r, (ArrTy, VecTy)):
                    cur = r.el; sz = sizeof(s.mod, cur)
                else:
                    raise ValueError("gep into %r" % r)
            if iv.c[0] == 'int':
                val = iv.c[1]
                ity = resolve(s.mod, iv.ty)
                if val >= 1 << (ity.n - 1): val -= 1 << ity.n
                const_off += val * sz
            else:
                ity = resolve(s.mod, iv.ty)
                e = s.const(iv)
                sx = f"(int64_t)(int{ity.n}_t){e}" if ity.n in (8,16,32,64) else f"(int64_t){e}"
                terms.append(f"({sx} * {sz}LL)")
        terms.append(f"{const_off}LL")
        return "(" + " + ".join(terms) + ")"

def flatten_init(mod, v, off, out):
    """flatten constant initializer into (offset, Val scalar) list"""
    ty = resolve(mod, v.ty); c = v.c
    if c[0] in ('zero', 'undef'): return
    if c[0] == 'str':
        for i, b in enumerate(c[1]):
            if b: out.append((off + i, Val(IntTy(8), ('int', b))))
        return
    if c[0] == 'agg':
        if isinstance(ty, StructTy):
            offs, _ = struct_layout(mod, ty)
            for o, e in zip(offs, c[1]): flatten_init(mod, e, off + o, out)
        else:
            sz = sizeof(mod, ty.el)
            for i, e in enumerate(c[1]): flatten_init(mod, e, off + i*sz, out)
        return
    out.append((off, v))

def sx(e, n):
    if n in (8,16,32,64): return f"((int{n}_t){e})"
    return f"((signed __CPROVER_bitvector[{n}]){e})"

INTRINSIC_IGNORE = ('llvm.lifetime.', 'llvm.experimental.noalias.scope.decl', 'llvm.dbg.', 'llvm.invariant.', 'llvm.prefetch', 'llvm.donothing')

def translate(mod, config):
    E = Emit(mod)
    o = []
    fdecl = []
    body = []
    # globals
    ginit = []
    for name, g in mod.globals.items():
        if g[0] == 'alias': continue
        kind, ty, init = g
        sz = max(sizeof(mod, ty), 1)
        al = alignof(mod, ty)
        if init is None:
            o.append(f"extern unsigned char {E.gname(name)}[{sz}];")
            continue
        o.append(f"static unsigned char {E.gname(name)}[{sz}] __attribute__((aligned({max(al,8)})));")
        fl = []; flatten_init(mod, init, 0, fl)
        for off, v in fl:
            ginit.append(f"  *({ctype(mod, v.ty)}*)({E.gname(name)} + {off}) = {E.const(v)};")
    # function prototypes
    def proto(f):
        ps = ", ".join(f"{ctype(mod, t)} {E.lname(n)}" for t, n in f.params) or "void"
        return f"{ctype(mod, f.ret)} {E.fname(f.name)}({ps})"
    for f in mod.funcs.values(): fdecl.append(proto(f) + ";")
    # external decls
    for name, ln in mod.decls.items():
        if name.startswith('@llvm.'): continue
        if cname(name) in config.get('builtin', set()): continue
        m = re.match(r'^declare (.*?)(@"(?:[^"\\]|\\.)*"|@[-a-zA-Z$._0-9]+)\((.*)\)[^)]*$', ln)
        p = P(tokenize(m.group(1)), mod)
        while p.peek() in LINKAGE or p.peek() in PARAM_ATTRS or p.peek() in ('align','dereferenceable','dereferenceable_or_null'):
            if p.peek() in LINKAGE: p.next()
            else: skip_attrs(p)
        ret = p.type()
        p2 = P(tokenize(m.group(3)), mod); args = []; va = False
        while p2.peek() is not None:
            if p2.eat('...'): va = True; break
            t = p2.type(); skip_attrs(p2); args.append(t); p2.eat(',')
        ps = ", ".join(ctype(mod, t) for t in args) or "void"
        if va: ps += ", ..."
        fdecl.append(f"{ctype(mod, ret)} {cname(name)}({ps});")
    for f in mod.funcs.values():
        body.extend(translate_fn(mod, E, f, proto(f), config))
    hdr = ['#include <stdint.h>', '#include <stddef.h>', '#include <string.h>', '#include "ll_runtime.h"']
    return "\n".join(hdr + AGG_DEFS + o + fdecl + ["static void ll_init_globals(void) {"] + ginit + ["}"] + body) + "\n"

def split_top(s, sep=','):
    out = []; depth = 0; cur = ''; inq = False
    for ch in s:
        if ch == '"': inq = not inq
        if not inq:
            if ch in '([{<': depth += 1
            elif ch in ')]}>': depth -= 1
            elif ch == sep and depth == 0:
                out.append(cur); cur = ''; continue
        cur += ch
    if cur.strip(): out.append(cur)
    return out

def translate_fn(mod, E, f, proto, config):
    L = []
    decls = {}   # cname -> ctype
    def declare(n, ty):
        decls[E.lname(n)] = ctype(mod, ty)
        return E.lname(n)
    code = []
    # block labels: first block unnamed -> label is implicit number
    def blabel(l): return "L_" + cname(l)
    # collect phi info
    phis = {}  # block label -> list of (dest, ty, [(val, pred)])
    blocks = f.blocks
    # determine name of first block if unnamed
    names = []
    for idx, (lab, ins) in enumerate(blocks):
        if lab is None:
            lab = '%' + str(len(f.params)) if idx == 0 else None
        names.append(lab)
    for (lab0, ins), lab in zip(blocks, names):
        for ln in ins:
            m = re.match(r'^(%\S+) = phi (.*)$', ln)
            if not m: break
            p = P(tokenize(m.group(2)), mod)
            ty = p.type(); inc = []
            while True:
                p.expect('['); v = parse_const(p, ty); p.expect(','); pred = p.next(); p.expect(']')
                inc.append((v, pred))
                if not p.eat(','): break
            phis.setdefault(lab, []).append((m.group(1), ty, inc))
    def phi_moves(frm, to):
        mv = []
        lst = phis.get(to, [])
        if not lst: return ""
        tmps = []
        for n, (dest, ty, inc) in enumerate(lst):
            for v, pred in inc:
                if pred == frm:
                    t = f"phi_tmp{n}"
                    decls[t + "_" + cname(dest)] = ctype(mod, ty)
                    tmps.append((t + "_" + cname(dest), declare(dest, ty), E.const(v)))
                    break
            else:
                raise ValueError(f"no phi incoming from {frm} to {to} in {f.name}")
        return " ".join(f"{t} = {e};" for t, d, e in tmps) + " " + " ".join(f"{d} = {t};" for t, d, e in tmps)
    for (lab0, ins), lab in zip(blocks, names):
        code.append(f"{blabel(lab)}: ;")
        for ln in ins:
            ln = re.sub(r', !\S+ !\S+', '', ln)  # strip metadata attachments
            ln = re.sub(r', !\S+$', '', ln)
            try:
                code.extend(translate_instr(mod, E, f, ln, lab, declare, phi_moves, blabel, config, decls))
            except Exception as ex:
                raise RuntimeError(f"in {f.name}: {ln}\n  {ex!r}") from ex
    L.append(proto + " {")
    for n, t in decls.items():
        if n in [E.lname(pn) for _, pn in f.params]: continue
        L.append(f"  {t} {n};")
    L.extend("  " + c for c in code)
    L.append("}")
    return L

BINOPS = {'add':'+','sub':'-','mul':'*','and':'&','or':'|','xor':'^','shl':'<<','lshr':'>>','udiv':'/','urem':'%'}
ICMP = {'eq':'==','ne':'!=','ugt':'>','uge':'>=','ult':'<','ule':'<=','sgt':'>','sge':'>=','slt':'<','sle':'<='}
FCMP = {'oeq':'==','one':'!=','ogt':'>','oge':'>=','olt':'<','ole':'<=','ueq':'==','une':'!=','ugt':'>','uge':'>=','ult':'<','ule':'<='}
FBIN = {'fadd':'+','fsub':'-','fmul':'*','fdiv':'/'}

def translate_instr(mod, E, f, ln, curlab, declare, phi_moves, blabel, config, decls):
    out = []
    m = re.match(r'^(%"(?:[^"\\]|\\.)*"|%[-a-zA-Z$._0-9]+) = (.*)$', ln)
    dest = None; rest = ln
    if m: dest, rest = m.group(1), m.group(2)
    toks = tokenize(rest)
    p = P(toks, mod)
    op = p.next()
    while op in ('tail', 'musttail', 'notail'): op = p.next()
    C = E.const
    def operand(ty): return parse_const(p, ty)
    def ty_op():
        t = p.type(); return t, operand(t)
    if op == 'phi': return []
    if op in BINOPS or op in ('sdiv', 'srem', 'ashr'):
        while p.peek() in ('nuw', 'nsw', 'exact'): p.next()
        ty = p.type(); a = operand(ty); p.expect(','); b = operand(ty)
        rty = resolve(mod, ty); n = rty.n; ct = ctype(mod, ty)
        d = declare(dest, ty)
        if op in BINOPS:
            if n == 1 and op in ('add', 'sub', 'xor'): out.append(f"{d} = ({C(a)} ^ {C(b)});")
            elif n == 1 and op == 'mul': out.append(f"{d} = ({C(a)} & {C(b)});")
            elif op in ('shl', 'lshr'):
                out.append(f"{d} = ({ct})(({'uint64_t' if n<=64 else ct}){C(a)} {BINOPS[op]} {C(b)});")
            else:
                wide = 'uint64_t' if n <= 64 else ct
                out.append(f"{d} = ({ct})(({wide}){C(a)} {BINOPS[op]} ({wide}){C(b)});")
        elif op == 'ashr': out.append(f"{d} = ({ct})({sx(C(a), n)} >> {C(b)});")
        elif op == 'sdiv': out.append(f"{d} = ({ct})({sx(C(a), n)} / {sx(C(b), n)});")
        elif op == 'srem': out.append(f"{d} = ({ct})({sx(C(a), n)} % {sx(C(b), n)});")
        return out
    if op in FBIN:
        while p.peek() in ('fast','nnan','ninf','nsz','arcp','contract','afn','reassoc'): p.next()
        ty = p.type(); a = operand(ty); p.expect(','); b = operand(ty)
        out.append(f"{declare(dest, ty)} = ({C(a)} {FBIN[op]} {C(b)});"); return out
    if op == 'fneg':
        while p.peek() in ('fast','nnan','ninf','nsz','arcp','contract','afn','reassoc'): p.next()
        ty = p.type(); a = operand(ty)
        out.append(f"{declare(dest, ty)} = (-{C(a)});"); return out
    if op == 'icmp':
        pred = p.next(); ty = p.type(); a = operand(ty); p.expect(','); b = operand(ty)
        rty = resolve(mod, ty)
        d = declare(dest, IntTy(1))
        if isinstance(rty, PtrTy):
            ea, eb = f"(uintptr_t){C(a)}", f"(uintptr_t){C(b)}"
            if pred in ('eq', 'ne'): ea, eb = C(a), C(b)
            if pred[0] == 's': ea, eb = f"(intptr_t){C(a)}", f"(intptr_t){C(b)}"
        elif pred[0] == 's': ea, eb = sx(C(a), rty.n), sx(C(b), rty.n)
        else: ea, eb = C(a), C(b)
        out.append(f"{d} = ({ea} {ICMP[pred]} {eb});"); return out
    if op == 'fcmp':
        while p.peek() in ('fast','nnan','ninf','nsz','arcp','contract','afn','reassoc'): p.next()
        pred = p.next(); ty = p.type(); a = operand(ty); p.expect(','); b = operand(ty)
        d = declare(dest, IntTy(1))
        if pred == 'ord': out.append(f"{d} = (({C(a)} == {C(a)}) && ({C(b)} == {C(b)}));")
        elif pred == 'uno': out.append(f"{d} = (({C(a)} != {C(a)}) || ({C(b)} != {C(b)}));")
        elif pred == 'true': out.append(f"{d} = 1;")
        elif pred == 'false': out.append(f"{d} = 0;")
        elif pred[0] == 'o' : out.append(f"{d} = ({C(a)} {FCMP[pred]} {C(b)});")
        else: out.append(f"{d} = (({C(a)} != {C(a)}) || ({C(b)} != {C(b)}) || ({C(a)} {FCMP[pred]} {C(b)}));")
        return out
    if op == 'select':
        while p.peek() in ('fast','nnan','ninf','nsz','arcp','contract','afn','reassoc'): p.next()
        cty, c = ty_op(); p.expect(','); ty, a = ty_op(); p.expect(','); _, b = ty_op()
        out.append(f"{declare(dest, ty)} = ({C(c)} ? {C(a)} : {C(b)});"); return out
    if op in ('zext', 'trunc', 'sext', 'ptrtoint', 'inttoptr', 'bitcast', 'fpext', 'fptrunc', 'sitofp', 'uitofp', 'fptosi', 'fptoui', 'addrspacecast', 'freeze'):
        if op == 'freeze':
            fty, v = ty_op(); out.append(f"{declare(dest, fty)} = {C(v)};"); return out
        fty, v = ty_op(); p.expect('to'); tty = p.type()
        d = declare(dest, tty); ct = ctype(mod, tty)
        rf, rt = resolve(mod, fty), resolve(mod, tty)
        if op in ('zext', 'trunc'): out.append(f"{d} = ({ct}){C(v)};")
        elif op == 'sext':
            if rf.n == 1: out.append(f"{d} = ({C(v)} ? ({ct})-1 : ({ct})0);")
            else: out.append(f"{d} = ({ct})({'int64_t' if rt.n<=64 else 'signed __CPROVER_bitvector[%d]' % rt.n}){sx(C(v), rf.n)};")
        elif op == 'ptrtoint': out.append(f"{d} = ({ct})(uintptr_t){C(v)};")
        elif op == 'inttoptr': out.append(f"{d} = (unsigned char*)(uintptr_t){C(v)};")
        elif op in ('bitcast', 'addrspacecast'):
            if isinstance(rf, PtrTy) and isinstance(rt, PtrTy): out.append(f"{d} = {C(v)};")
            else:
                out.append(f"{{ {ctype(mod, fty)} bc_tmp = {C(v)}; {d} = *({ct}*)&bc_tmp; }}")
        elif op in ('fpext', 'fptrunc', 'sitofp', 'uitofp', 'fptosi', 'fptoui'):
            src = C(v)
            if op == 'sitofp': src = sx(src, rf.n)
            if op == 'fptosi': out.append(f"{d} = ({ct})(int64_t){src};")
            else: out.append(f"{d} = ({ct}){src};")
        return out
    if op == 'getelementptr':
        p.eat('inbounds')
        sty = p.type(); p.expect(','); bty, base = ty_op()
        idx = []
        while p.eat(','):
            ity, iv = ty_op(); idx.append(iv)
        out.append(f"{declare(dest, PtrTy(IntTy(8)))} = {C(base)} + {E.gep_offset(sty, idx)};"); return out
    if op == 'load':
        p.eat('atomic'); p.eat('volatile')
        ty = p.type(); p.expect(','); pty, ptr = ty_op()
        ct = ctype(mod, ty)
        hook = config.get('access_hook')
        if hook: out.append(f"{hook}({C(ptr)}, {sizeof(mod, ty)}, 0);")
        out.append(f"{declare(dest, ty)} = *({ct}*){C(ptr)};"); return out
    if op == 'store':
        p.eat('atomic'); p.eat('volatile')
        ty, v = ty_op(); p.expect(','); pty, ptr = ty_op()
        hook = config.get('access_hook')
        if hook: out.append(f"{hook}({C(ptr)}, {sizeof(mod, ty)}, 1);")
        out.append(f"*({ctype(mod, ty)}*){C(ptr)} = {C(v)};"); return out
    if op == 'alloca':
        p.eat('inalloca')
        ty = p.type(); cnt = "1"
        al = alignof(mod, ty)
        while p.eat(','):
            if p.peek() == 'align': p.next(); al = int(p.next())
            else:
                cty, cv = ty_op(); cnt = C(cv)
        sz = max(sizeof(mod, ty), 1)
        nm = "alloca_" + cname(dest)
        assert cnt == "1" or cnt.startswith("(("), cnt
        total = f"{sz}" if cnt == "1" else f"{sz}*{cnt}"
        decls[f"{nm}[{total}] __attribute__((aligned({al})))"] = "unsigned char"
        # order: decls dict is name->type printed as "type name;" so craft accordingly
        out.append(f"{declare(dest, PtrTy(IntTy(8)))} = {nm};"); return out
    if op == 'br':
        if p.peek() == 'label':
            p.next(); tgt = p.next()
            out.append(f"{phi_moves(curlab, tgt)} goto {blabel(tgt)};"); return out
        cty, c = ty_op(); p.expect(','); p.expect('label'); t1 = p.next(); p.expect(','); p.expect('label'); t2 = p.next()
        out.append(f"if ({C(c)}) {{ {phi_moves(curlab, t1)} goto {blabel(t1)}; }} else {{ {phi_moves(curlab, t2)} goto {blabel(t2)}; }}"); return out
    if op == 'switch':
        ty, v = ty_op(); p.expect(','); p.expect('label'); dflt = p.next(); p.expect('[')
        s = ""
        while not p.eat(']'):
            cty, cv = ty_op(); p.expect(','); p.expect('label'); tgt = p.next()
            s += f"if ({C(v)} == {C(cv)}) {{ {phi_moves(curlab, tgt)} goto {blabel(tgt)}; }} "
        out.append(s + f"{phi_moves(curlab, dflt)} goto {blabel(dflt)};"); return out
    if op == 'ret':
        ty = p.type()
        if isinstance(ty, VoidTy): out.append("return;")
        else: out.append(f"return {C(operand(ty))};")
        return out
    if op == 'unreachable':
        out.append("ll_unreachable(); " + ("return;" if isinstance(f.ret, VoidTy) else f"return ({ctype(mod, f.ret)}){{0}};") if not isinstance(resolve(mod, f.ret), (IntTy, PtrTy, FloatTy)) or isinstance(f.ret, VoidTy) else f"ll_unreachable(); return ({ctype(mod, f.ret)})0;")
        return out
    if op == 'extractvalue':
        ty, v = ty_op(); path = ""
        cur = resolve(mod, ty)
        while p.eat(','):
            i = int(p.next())
            if isinstance(cur, StructTy): path += f".f{i}"; cur = resolve(mod, cur.els[i])
            else: path += f".a[{i}]"; cur = resolve(mod, cur.el)
        out.append(f"{declare(dest, cur)} = {C(v)}{path};"); return out
    if op == 'insertvalue':
        ty, v = ty_op(); p.expect(','); ety, ev = ty_op(); path = ""
        cur = resolve(mod, ty)
        while p.eat(','):
            i = int(p.next())
            if isinstance(cur, StructTy): path += f".f{i}"; cur = resolve(mod, cur.els[i])
            else: path += f".a[{i}]"; cur = resolve(mod, cur.el)
        d = declare(dest, ty)
        out.append(f"{d} = {C(v)}; {d}{path} = {C(ev)};"); return out
    if op in ('call', 'invoke'):
        while p.peek() in ('fast','nnan','ninf','nsz','arcp','contract','afn','reassoc', 'fastcc', 'ccc', 'coldcc') or p.peek() in PARAM_ATTRS or p.peek() in ('align','dereferenceable','dereferenceable_or_null'):
            if p.peek() in PARAM_ATTRS or p.peek() in ('align','dereferenceable','dereferenceable_or_null'): skip_attrs(p)
            else: p.next()
        rty = p.type()
        if isinstance(rty, FuncTy): rty = rty.ret
        if isinstance(rty, PtrTy) and isinstance(rty.to, FuncTy): rty = rty.to.ret
        callee = p.next()
        p.expect('(')
        args = []
        while not p.eat(')'):
            aty = p.type(); skip_attrs(p)
            if isinstance(aty, MetaTy):
                # metadata arg; skip tokens until , or )
                while p.peek() not in (',', ')'): p.next()
                p.eat(','); continue
            args.append(parse_const(p, aty)); p.eat(',')
        # bundles / attrs
        bundles = []
        rest_toks = p.t[p.i:]
        if '[' in rest_toks:
            bi = rest_toks.index('[')
            # only operand bundles start with [ "tag"(
            if bi + 1 < len(rest_toks) and rest_toks[bi+1].startswith('"'):
                pb = P(rest_toks[bi+1:], mod)
                while True:
                    tag = pb.next().strip('"'); pb.expect('('); bargs = []
                    while not pb.eat(')'):
                        bt = pb.type(); bargs.append(parse_const(pb, bt)); pb.eat(',')
                    bundles.append((tag, bargs))
                    if not pb.eat(','): break
        name = callee
        cn = cname(name) if name[0] == '@' else None
        if name.startswith('@llvm.'):
            nm = name[1:]
            if any(nm.startswith(x) for x in INTRINSIC_IGNORE): return []
            if nm == 'llvm.assume':
                for tag, bargs in bundles:
                    if tag == 'align':
                        out.append(f"ll_assume_align({C(bargs[0])}, {C(bargs[1])});")
                    elif tag in ('nonnull', 'dereferenceable'): pass
                    else: raise ValueError("bundle " + tag)
                if not bundles: out.append(f"ll_assume_cond({C(args[0])});")
                return out
            hook = config.get('access_hook')
            if nm.startswith('llvm.memcpy') or nm.startswith('llvm.memmove'):
                if hook: out.append(f"{hook}({C(args[1])}, {C(args[2])}, 0); {hook}({C(args[0])}, {C(args[2])}, 1);")
                out.append(f"ll_{'memcpy' if 'memcpy' in nm else 'memmove'}({C(args[0])}, {C(args[1])}, {C(args[2])});"); return out
            if nm.startswith('llvm.memset'):
                if hook: out.append(f"{hook}({C(args[0])}, {C(args[2])}, 1);")
                out.append(f"ll_memset({C(args[0])}, {C(args[1])}, {C(args[2])});"); return out
            m2 = re.match(r'llvm\.(umax|umin|smax|smin)\.i(\d+)', nm)
            if m2:
                k, n = m2.group(1), int(m2.group(2)); a, b = C(args[0]), C(args[1])
                if k[0] == 's': ca, cb = sx(a, n), sx(b, n)
                else: ca, cb = a, b
                cmp = '>' if k.endswith('max') else '<'
                out.append(f"{declare(dest, rty)} = ({ca} {cmp} {cb}) ? {a} : {b};"); return out
            if nm.startswith('llvm.expect'): out.append(f"{declare(dest, rty)} = {C(args[0])};"); return out
            if nm.startswith('llvm.trap'): out.append("ll_trap();"); return out
            m2 = re.match(r'llvm\.(cttz|ctlz|ctpop|bswap|abs|fabs|uadd\.with\.overflow|umul\.with\.overflow|usub\.with\.overflow)\.', nm)
            if m2:
                k = m2.group(1).replace('.', '_'); n = resolve(mod, args[0].ty)
                w = n.n if isinstance(n, IntTy) else 0
                if 'overflow' in k:
                    d = declare(dest, rty)
                    out.append(f"{d}.f0 = ll_{k}_{w}({C(args[0])}, {C(args[1])}, &{d}.f1);")
                else:
                    out.append(f"{declare(dest, rty)} = ll_{k}_{w}({C(args[0])});")
                return out
            m2 = re.match(r'llvm\.objectsize', nm)
            if m2: out.append(f"{declare(dest, rty)} = ({ctype(mod, rty)})-1;"); return out
            raise ValueError("intrinsic " + nm)
        if cn == 'verif_assert' and args[1].c[0] == 'int':
            out.append(f'__CPROVER_assert({C(args[0])}, "PROP id={args[1].c[1]}");'); return out
        if name[0] == '%':
            # indirect call
            fty_args = ", ".join(ctype(mod, a.ty) for a in args) or "void"
            fn = f"(({ctype(mod, rty)} (*)({fty_args})){E.lname(name)})"
        else:
            fn = config.get('rename', {}).get(cn, cn)
        call = f"{fn}({', '.join(C(a) for a in args)})"
        if isinstance(rty, VoidTy) or dest is None: out.append(call + ";")
        else: out.append(f"{declare(dest, rty)} = {call};")
        if op == 'invoke':
            # to label %a unwind label %b
            idx = p.t.index('to', p.i)
            normal = p.t[idx+2]; unwind = p.t[idx+5]
            out.append(f"if (ll_exc_pending) {{ {phi_moves(curlab, unwind)} goto {blabel(unwind)}; }} else {{ {phi_moves(curlab, normal)} goto {blabel(normal)}; }}")
        elif config.get('exceptions') and name[0] == '@' and not cn.startswith('verif_') and 'nounwind' not in mod.decls.get(name, '') :
            zero = "" if isinstance(f.ret, VoidTy) else f" ({ctype(mod, f.ret)}){{0}}" if isinstance(resolve(mod, f.ret), (StructTy, ArrTy)) else f" ({ctype(mod, f.ret)})0"
            out.append(f"if (ll_exc_pending) return{zero};")
        return out
    if op == 'landingpad':
        ty = p.type()
        d = declare(dest, ty)
        iscleanup = 'cleanup' in p.t[p.i:]
        hascatch = 'catch' in p.t[p.i:]
        out.append(f"{d}.f0 = ll_exc_object; {d}.f1 = ll_exc_selector({1 if hascatch else 0});"); return out
    if op == 'resume':
        ty, v = ty_op()
        out.append("ll_exc_pending = 1; " + ("return;" if isinstance(f.ret, VoidTy) else f"return ({ctype(mod, f.ret)}){{0}};" if isinstance(resolve(mod, f.ret), (StructTy, ArrTy)) else f"return ({ctype(mod, f.ret)})0;"))
        return out
    raise ValueError("unhandled op " + op)

if __name__ == '__main__':
    src = open(sys.argv[1]).read()
    mod = parse_module(src)
    cfg = {'builtin': {'memcpy', 'memmove', 'memset', 'memcmp', 'bcmp', 'strlen'}, 'rename': {'bcmp': 'memcmp'}}
    if '--exceptions' in sys.argv: cfg['exceptions'] = True
    if '--hook' in sys.argv: cfg['access_hook'] = 'll_access'
    sys.stdout.write(translate(mod, cfg))
